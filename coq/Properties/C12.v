(* C12 — Number-format helpers are bit-exact and arithmetically exact.
   Statements only; proofs are in Proofs/C12/*.v.
   IntegerHelper_signed_to_c2 / IntegerHelper_c2_to_signed / signExtend are REGENERATED from py4hw/helper.py on every
   run (Gen/Helpers.v); everything else is the hand-written model (Model/HelperInt.v, Model/FPNum.v, Model/FPHelper.v)
   tied to the code by the correspondence sweep of py/props/c12.py.
   Every statement is about the model instance that the check ties to /repo TODAY (six C12 defects were repaired there:
   8d56487, 8541cf4, 6fe767a, eab1ae9, b24d7f8, f0972ae).  py/props/c12.py probes the implementation for each repaired spot; if
   one of them behaves as before its repair again, the theorems below no longer describe the code: the check reports the
   broken tie and its differential produces the failing input.  What was true of the old code is kept only as
   `Example ..._before_repair_<commit>` in the HISTORY section at the end.
   `_partial` marks the statements about the float-typed helpers: they are proved for the model over dyadic rationals, and the
   step from IEEE double arithmetic to that model is checked bit-exactly but not proved.  `_refuted` is kept only for what the
   CURRENT code still does (FixedPoint.mult reads the top bit of an unsigned format as a sign). *)
From V Require Import Base.Bits Gen.Helpers Spec.C12 Model.HelperInt Model.FPNum Model.FPHelper Proofs.C12.Int Proofs.C12.FPNum Proofs.C12.Decode Proofs.C12.Convert Proofs.C12.FPH Proofs.C12.OfFloat Proofs.C12.Encode Proofs.C12.Unary.
From Coq Require Import Qabs.
Open Scope Z_scope.

(* ---------------------------------------------------------------- two's complement (regenerated code) *)
(* every width, every representable value *)
Theorem C12_c2_round_trip : forall w v, 1 <= w -> - 2 ^ (w - 1) <= v < 2 ^ (w - 1) ->
  IntegerHelper_c2_to_signed (IntegerHelper_signed_to_c2 v w) w = v.
Proof. exact c2_round_trip. Qed.
Example C12_c2_round_trip_ex : IntegerHelper_c2_to_signed (IntegerHelper_signed_to_c2 (-128) 8) 8 = -128.
Proof. reflexivity. Qed.

(* the converse: every w-bit pattern *)
Theorem C12_c2_converse : forall w u, 1 <= w -> 0 <= u < 2 ^ w ->
  IntegerHelper_signed_to_c2 (IntegerHelper_c2_to_signed u w) w = u.
Proof. exact c2_converse. Qed.
Example C12_c2_converse_ex : IntegerHelper_signed_to_c2 (IntegerHelper_c2_to_signed 255 8) 8 = 255.
Proof. reflexivity. Qed.

(* what the two functions compute for EVERY integer argument (negative, oversized) *)
Theorem C12_signed_to_c2_spec : forall w v, 0 <= w ->
  0 <= IntegerHelper_signed_to_c2 v w < 2 ^ w /\ IntegerHelper_signed_to_c2 v w = v mod 2 ^ w.
Proof. exact signed_to_c2_spec. Qed.
Theorem C12_c2_to_signed_spec : forall w u, 1 <= w ->
  - 2 ^ (w - 1) <= IntegerHelper_c2_to_signed u w < 2 ^ (w - 1) /\
  (IntegerHelper_c2_to_signed u w) mod 2 ^ w = u mod 2 ^ w.
Proof. exact c2_to_signed_spec. Qed.

(* signExtend(v, w, nw): the nw-bit two's complement pattern of the signed reading of the low w bits of v *)
Theorem C12_signExtend_spec : forall v w nw, 1 <= w -> w <= nw ->
  signExtend v w nw = (c2_decode w v) mod 2 ^ nw.
Proof. exact signExtend_char. Qed.
Example C12_signExtend_ex : signExtend 0x1F5 8 16 = 0xFFF5.     (* bits above w are dropped first *)
Proof. reflexivity. Qed.

(* ---------------------------------------------------------------- FixedPoint on raw encodings: EVERY format (sw, iw, fw >= 0) *)
(* formats without integer bits (iw = 0, pure fractions) included: FixedPoint(sw, 0, fw, 0) is constructible since 6fe767a *)
Theorem C12_fx_add : forall sw iw fw a b, 0 <= sw -> 0 <= iw -> 0 <= fw ->
  FixedPoint_add sw iw fw a b = Some ((a + b) mod 2 ^ (sw + iw + fw)).
Proof. exact fx_add_ok. Qed.
Theorem C12_fx_sub : forall sw iw fw a b, 0 <= sw -> 0 <= iw -> 0 <= fw ->
  FixedPoint_sub sw iw fw a b = Some ((a - b) mod 2 ^ (sw + iw + fw)).
Proof. exact fx_sub_ok. Qed.
(* product of the signed readings, fw low bits truncated (floor), modulo 2^w; the format needs at least one bit (mult sign-extends
   from bit w-1: for w = 0 the code evaluates `v >> -1`) *)
Theorem C12_fx_mult : forall sw iw fw a b, 0 <= sw -> 0 <= iw -> 0 <= fw -> 1 <= sw + iw + fw ->
  FixedPoint_mult sw iw fw a b =
  Some (((c2_decode (sw + iw + fw) a * c2_decode (sw + iw + fw) b) / 2 ^ fw) mod 2 ^ (sw + iw + fw)).
Proof. exact fx_mult_ok. Qed.
Example C12_fx_ex : FixedPoint_mult 1 3 4 (c2_encode 8 (-24)) 20 = Some (c2_encode 8 (-30)) /\         (* -1.5 * 1.25 = -1.875 *)
                    FixedPoint_mult 1 0 3 12 6 = Some 13 /\ FixedPoint_add 0 0 4 9 9 = Some 2.           (* iw = 0: -0.5 * 0.75 = -0.375 *)
Proof. vm_compute. repeat split. Qed.
(* the constructor from an int, where it does not raise its documented range errors (v <= (1 << iw) >> 1) *)
Theorem C12_fx_of_int : forall sw iw fw v, 0 <= sw -> 0 <= iw -> 0 <= fw -> (0 <= v \/ sw <> 0) -> v <= 2 ^ iw / 2 ->
  FixedPoint_intToFixedPoint sw iw fw v = Some ((v * 2 ^ fw) mod 2 ^ (sw + iw + fw)).
Proof. exact intToFixedPoint_spec. Qed.
(* toFloatingPoint returns numerator / 2^fw (one correctly rounded division, exact for w <= 53): the numerator is the signed reading *)
Theorem C12_fx_to_float_signed : forall iw fw v, 0 <= iw -> 0 <= fw -> 0 <= v < 2 ^ (1 + iw + fw) ->
  FixedPoint_toFloat_num 1 iw fw v = c2_decode (1 + iw + fw) v.
Proof. exact toFloat_num_signed. Qed.
Theorem C12_fx_to_float_unsigned : forall iw fw v, 0 <= iw -> 0 <= fw -> 0 <= v < 2 ^ (iw + fw) ->
  FixedPoint_toFloat_num 0 iw fw v = v.
Proof. exact toFloat_num_unsigned. Qed.
(* the product is of the SIGNED readings even for an unsigned format (sw = 0): below the top bit it is the plain product ... *)
Theorem C12_fx_mult_small : forall sw iw fw a b, 0 <= sw -> 0 <= iw -> 0 <= fw -> 1 <= sw + iw + fw ->
  0 <= a < 2 ^ (sw + iw + fw - 1) -> 0 <= b < 2 ^ (sw + iw + fw - 1) ->
  FixedPoint_mult sw iw fw a b = Some (((a * b) / 2 ^ fw) mod 2 ^ (sw + iw + fw)).
Proof. exact fx_mult_small. Qed.
(* ... and with the top bit set it is not (CURRENT code): FixedPoint(0,2,1, 2).mult(0.5) = 3.0 *)
Theorem C12_fx_mult_unsigned_refuted :
  FixedPoint_mult 0 2 1 4 1 = Some 6 /\ ((4 * 1) / 2 ^ 1) mod 2 ^ 3 = 2.
Proof. exact fx_mult_unsigned_topbit. Qed.

(* ---------------------------------------------------------------- field pack / unpack: every format, every pattern *)
(* std_layout ew mw = sign at bit ew+mw, exponent field of ew bits at bit mw, mw mantissa bits; the code's three
   literal layouts are instances *)
Theorem C12_layouts : layout_hp = std_layout 5 10 /\ layout_sp = std_layout 8 23 /\ layout_dp = std_layout 11 52.
Proof. exact layouts_std. Qed.
Theorem C12_unpack_pack : forall ew mw s e m, 0 <= ew -> 0 <= mw -> 0 <= s <= 1 -> 0 <= e < 2 ^ ew -> 0 <= m < 2 ^ mw ->
  FPNum_unpack (std_layout ew mw) (FPNum_pack (std_layout ew mw) s e m) = (s, e, m).
Proof. exact unpack_pack_id. Qed.
Theorem C12_unpack_pack_any : forall ew mw s e m, 0 <= ew -> 0 <= mw ->     (* any integers: fields are reduced *)
  FPNum_unpack (std_layout ew mw) (FPNum_pack (std_layout ew mw) s e m) = (s mod 2, e mod 2 ^ ew, m mod 2 ^ mw).
Proof. exact unpack_pack. Qed.
Theorem C12_pack_unpack : forall ew mw v, 0 <= ew -> 0 <= mw -> 0 <= v < 2 ^ (1 + ew + mw) ->
  (let '(s, e, m) := FPNum_unpack (std_layout ew mw) v in FPNum_pack (std_layout ew mw) s e m) = v.
Proof. exact pack_unpack_id. Qed.
Example C12_pack_unpack_ex : (let '(s, e, m) := FPNum_unpack layout_dp 0xC005BF0A89F1B0DD in (s, e, m, FPNum_pack layout_dp s e m))
                             = (1, 0x400, 0x5BF0A89F1B0DD, 0xC005BF0A89F1B0DD).
Proof. reflexivity. Qed.
(* the fields are the arithmetic fields of the pattern *)
Theorem C12_unpack_fields : forall ew mw v, 0 <= ew -> 0 <= mw ->
  FPNum_unpack (std_layout ew mw) v = (fld_s ew mw v, fld_e ew mw v, fld_m ew mw v).
Proof. exact unpack_fields. Qed.
(* FloatingPointHelper.unpack_ieee754_*_parts does not mask the sign: same result on patterns of the format *)
Theorem C12_fph_unpack : forall ew mw v, 0 <= ew -> 0 <= mw -> 0 <= v < 2 ^ (1 + ew + mw) ->
  FPH_unpack (std_layout ew mw) v = FPNum_unpack (std_layout ew mw) v.
Proof. exact fph_unpack_eq. Qed.

(* ---------------------------------------------------------------- FPNum: (s, e, m, p) denotes s * 2^e * m / p *)
(* wf x: sign in {1,-1} and, for a finite x, m >= 0 and p a power of two (the asserts of add/compare need equal p after
   alignment; FPNum(1,0,3,3).add(FPNum(1,0,1,1)) fails its assert).  Closed under add/sub/mul (second conjuncts). *)
Example C12_wf_ex : wf (FPNum_from_ieee754 fmt_sp 0x3F8CCCCD) /\ wf (FPNum_of_finite true 3602879701896397 55) /\ wf (FPNum_of_inf false).
Proof.
  split; [apply decode_sp|]. split; (split; [vm_compute; auto|]); cbn; intros; try discriminate.
  split; [lia | exists 51; split; [lia | reflexivity]].
Qed.

(* the constructor's normalisation loops keep the denoted rational, never run out of the model's fuel (the loop condition is
   false on exit: p <= m < 2p for m > 0) and keep p a power of two *)
Theorem C12_fpnum_normalise : forall x, 0 <= f_m x /\ 0 < f_p x ->
  let y := adjust_semp x in
  f_s y = f_s x /\ f_inf y = f_inf x /\ f_nan y = f_nan x /\ (0 <= f_m y /\ 0 < f_p y) /\ (fval y == fval x)%Q /\
  (pow2 (f_p x) -> pow2 (f_p y)) /\ (0 < f_m x -> f_p y <= f_m y < 2 * f_p y) /\ (f_m x = 0 -> f_m y = 0).
Proof. exact adjust_semp_spec. Qed.

(* add / sub are exact on the extended rationals (infinities as in IEEE 754: inf - inf = NaN), for ALL well-formed operands *)
Theorem C12_fpnum_add_exact : forall a b, wf a -> wf b ->
  xeq (xval (FPNum_add a b)) (xadd (xval a) (xval b)) /\ wf (FPNum_add a b).
Proof. exact add_exact. Qed.
Theorem C12_fpnum_sub_exact : forall a b, wf a -> wf b ->
  xeq (xval (FPNum_sub a b)) (xsub (xval a) (xval b)) /\ wf (FPNum_sub a b).
Proof. exact sub_exact. Qed.
(* mul is exact on finite operands (with an infinite operand the code returns an infinity even for inf * 0, see C12_fpnum_mul_special) *)
Theorem C12_fpnum_mul_exact : forall a b, wf a -> wf b -> f_inf a = false -> f_nan a = false -> f_inf b = false -> f_nan b = false ->
  let r := FPNum_mul a b in wf r /\ f_inf r = false /\ f_nan r = false /\ (fval r == fval a * fval b)%Q.
Proof. exact mul_exact. Qed.
Theorem C12_fpnum_mul_special : forall a b, sign_ok a ->
  (f_nan a || f_nan b = true -> xval (FPNum_mul a b) = XNaN) /\
  (f_nan a || f_nan b = false -> f_inf a || f_inf b = true -> xval (FPNum_mul a b) = XInf (f_s a * f_s b <? 0)).
Proof. exact mul_special. Qed.
Example C12_fpnum_arith_ex :          (* 0xC49A6333 + 0x3F8CCCCD (Test_Helper) and their product, exact *)
  let a := FPNum_from_ieee754 fmt_sp 0xC49A6333 in let b := FPNum_from_ieee754 fmt_sp 0x3F8CCCCD in
  xeqb (xval (FPNum_add a b)) (XFin (-(10351542067 # 8388608))) = true /\
  xeqb (xval (FPNum_mul a b)) (XFin (-(10117939 * 9227469 # 68719476736))) = true.
Proof. vm_compute. split; reflexivity. Qed.

(* compare is the order of the extended rationals for ALL well-formed operands that are not NaN:
   -0 = +0 (since b24d7f8), -inf < +inf (since f0972ae), infinity against finite, finite against finite *)
Theorem C12_fpnum_compare_total : forall a b, wf a -> wf b -> f_nan a = false -> f_nan b = false ->
  FPNum_compare a b = xcmpZ (xval a) (xval b).
Proof. exact compare_total. Qed.
(* finite operands: exactly Qcompare of the denoted rationals, no guard *)
Theorem C12_fpnum_compare_exact : forall a b, wf a -> wf b ->
  f_inf a = false -> f_nan a = false -> f_inf b = false -> f_nan b = false ->
  FPNum_compare a b = cmpZ (Qcompare (fval a) (fval b)).
Proof. exact compare_finite. Qed.
Theorem C12_fpnum_compare_nan : forall a b, f_nan a || f_nan b = true -> FPNum_compare a b = 0.      (* unordered: the code answers 0 *)
Proof. exact compare_nan. Qed.
Example C12_fpnum_compare_ex :
  FPNum_compare (FPNum_from_ieee754 fmt_dp 0x4005BF0A89F1B0DD) (FPNum_from_ieee754 fmt_dp 0x400921FB53C8D4F1) = -1 /\
  FPNum_compare (mkfp (-1) (-1) 0 1 false false) (mkfp 1 (-1) 0 1 false false) = 0 /\            (* -0 vs +0 *)
  FPNum_compare (mkfp (-1) 0 0 0 true false) (mkfp 1 0 0 0 true false) = -1.                       (* -inf vs +inf *)
Proof. vm_compute. repeat split. Qed.

(* reduceExponentPrecision (since eab1ae9): the value is kept, the exponent is lifted to the subnormal scale of a prec-bit exponent
   field, infinity is flagged exactly when the biased exponent reaches all ones *)
Theorem C12_fpnum_reduce_exponent : forall x prec, 1 <= prec -> 0 < f_p x ->
  let y := FPNum_reduceExponentPrecision x prec in
  let e_bias := (2 ^ prec - 1) / 2 in
  f_s y = f_s x /\ f_m y = f_m x /\ f_nan y = f_nan x /\ (fval y == fval x)%Q /\ - (e_bias - 1) <= f_e y /\
  f_inf y = (f_inf x || (f_e x + e_bias >=? 2 ^ prec - 1)).
Proof. exact reduce_exponent_spec. Qed.
Example C12_fpnum_reduce_exponent_ex :
  FPNum_reduceExponentPrecision (mkfp 1 (-130) 3 2 false false) 8 = mkfp 1 (-126) 3 32 false false /\
  f_inf (FPNum_reduceExponentPrecision (mkfp 1 128 1 1 false false) 8) = true.
Proof. vm_compute. split; reflexivity. Qed.

(* ---------------------------------------------------------------- FPNum.neg / abs / div2 / reducePrecision[WithRounding] *)
(* neg / abs / div2 build FPNum(s', e, m, p') and are exact on the denoted rational.  Guard = what the constructor needs:
   a finite, non-NaN number with m >= 0 and p > 0 (adjust_semp loops on anything else); abs also needs the sign in {1,-1}
   (it REPLACES s by 1), div2 needs n >= 0 (Python raises on a negative shift count).  Spec operators xabs / xdiv2
   (value / 2^n) are in Proofs/C12/Unary.v next to xneg of Spec/C12.v.  wf is preserved (last conjuncts). *)
Theorem C12_fpnum_neg_exact : forall a, f_inf a = false -> f_nan a = false -> 0 <= f_m a /\ 0 < f_p a ->
  let r := FPNum_neg a in
  xeq (xval r) (xneg (xval a)) /\ f_inf r = false /\ f_nan r = false /\ f_s r = - f_s a /\ (wf a -> wf r).
Proof. exact neg_exact. Qed.
Theorem C12_fpnum_abs_exact : forall a, f_inf a = false -> f_nan a = false -> 0 <= f_m a /\ 0 < f_p a -> sign_ok a ->
  let r := FPNum_abs a in
  xeq (xval r) (xabs (xval a)) /\ f_inf r = false /\ f_nan r = false /\ f_s r = 1 /\ (wf a -> wf r).
Proof. exact abs_exact. Qed.
Theorem C12_fpnum_div2_exact : forall a n, 0 <= n -> f_inf a = false -> f_nan a = false -> 0 <= f_m a /\ 0 < f_p a ->
  let r := FPNum_div2 a n in
  xeq (xval r) (xdiv2 n (xval a)) /\ f_inf r = false /\ f_nan r = false /\ f_s r = f_s a /\ (wf a -> wf r).
Proof. exact div2_exact. Qed.
(* the specials in the representation the constructor understands (p = 0; infinity iff m = 0, NaN otherwise) are mapped correctly
   too; an infinity that is only FLAGGED (reduceExponentPrecision keeps p <> 0) is outside every guard: see the Example below *)
Theorem C12_fpnum_unary_special : forall a n, canon_special a -> sign_ok a -> 0 <= n ->
  xval (FPNum_neg a) = xneg (xval a) /\ xval (FPNum_abs a) = xabs (xval a) /\ xval (FPNum_div2 a n) = xdiv2 n (xval a).
Proof. exact unary_special. Qed.

(* reducePrecision(prec) on m / 2^k: the significand is truncated toward zero to prec fraction bits (D = 2^max(0, k - prec) is the
   factor by which p shrinks; m' = floor(m / D)); nothing changes when k <= prec.  In values: s * trunc_bits prec (m/p) * 2^e
   (trunc_bits prec q = floor(q * 2^prec) / 2^prec), never larger in magnitude, error < 2^(e - prec) = one unit of the new
   precision.  Guards: prec >= 0 (1 << prec), m >= 0, p a power of two (both part of wf; with another p the loop still ends but
   the result is not on the 2^-prec grid).  Flags, sign and exponent are untouched, so it is stated for any flags. *)
Theorem C12_fpnum_reduce_precision : forall x prec, 0 <= prec -> 0 <= f_m x -> pow2 (f_p x) ->
  let y := FPNum_reducePrecision x prec in
  let D := f_p x / f_p y in
  f_s y = f_s x /\ f_e y = f_e x /\ f_inf y = f_inf x /\ f_nan y = f_nan x /\
  f_p y = Z.min (f_p x) (2 ^ prec) /\ pow2 (f_p y) /\ f_p x = f_p y * D /\
  f_m y = f_m x / D /\ 0 <= f_m y /\
  f_m y * f_p x <= f_m x * f_p y < (f_m y + 1) * f_p x /\
  (fval y == inject_Z (f_s x) * trunc_bits prec (inject_Z (f_m x) / inject_Z (f_p x)) * two_pow (f_e x))%Q /\
  (sign_ok x -> (Qabs (fval y) <= Qabs (fval x))%Q /\ (Qabs (fval x - fval y) < two_pow (f_e x - prec))%Q).
Proof. exact reduce_precision_spec. Qed.

(* reducePrecisionWithRounding(prec): the dropped bits r = m mod D decide; m' = floor(m / D) + 1 iff r > D/2, i.e. round to nearest
   with TIES TOWARD ZERO (not the IEEE ties-to-even); error <= half a unit of the new precision.  m' may reach 2p' (the code does
   not renormalise).  Same guards. *)
Theorem C12_fpnum_reduce_precision_rounding : forall x prec, 0 <= prec -> 0 <= f_m x -> pow2 (f_p x) ->
  let y := FPNum_reducePrecisionWithRounding x prec in
  let D := f_p x / f_p y in
  f_s y = f_s x /\ f_e y = f_e x /\ f_inf y = f_inf x /\ f_nan y = f_nan x /\
  f_p y = Z.min (f_p x) (2 ^ prec) /\ pow2 (f_p y) /\ f_p x = f_p y * D /\
  f_m y = f_m x / D + (if 2 * (f_m x mod D) >? D then 1 else 0) /\ 0 <= f_m y /\
  2 * Z.abs (f_m x - f_m y * D) <= D /\
  (sign_ok x -> (Qabs (fval x - fval y) <= two_pow (f_e x - prec - 1))%Q).
Proof. exact reduce_precision_rounding_spec. Qed.

(* hypotheses satisfiable: a = -13 = (-1, 3, 13, 8) is wf and finite; reducePrecision(2) gives -12; rounding 13/8, 15/8, 5/4 to one
   fraction bit gives 3/2 (down), 4/2 (up), 2/2 (tie: down); -inf = (-1,0,0,0) is a canonical special *)
Example C12_fpnum_unary_ex :
  let a := mkfp (-1) 3 13 8 false false in
  wf a /\ (0 <= f_m a /\ 0 < f_p a) /\
  FPNum_neg a = mkfp 1 3 13 8 false false /\ FPNum_abs a = mkfp 1 3 13 8 false false /\
  FPNum_div2 a 3 = mkfp (-1) 0 104 64 false false /\
  FPNum_reducePrecision a 2 = mkfp (-1) 3 6 4 false false /\
  FPNum_reducePrecisionWithRounding a 1 = mkfp (-1) 3 3 2 false false /\
  FPNum_reducePrecisionWithRounding (mkfp (-1) 3 15 8 false false) 1 = mkfp (-1) 3 4 2 false false /\
  FPNum_reducePrecisionWithRounding (mkfp (-1) 3 5 4 false false) 1 = mkfp (-1) 3 2 2 false false /\
  canon_special (mkfp (-1) 0 0 0 true false) /\ xval (FPNum_neg (mkfp (-1) 0 0 0 true false)) = XInf false.
Proof. exact unary_ex. Qed.
(* outside the guard: reduceExponentPrecision flags +inf on (1, 200, 1, 1) and keeps p = 1; neg of that is the finite -2^200 *)
Example C12_fpnum_neg_flagged_infinity_ex :
  let x := FPNum_reduceExponentPrecision (mkfp 1 200 1 1 false false) 8 in
  xval x = XInf false /\ f_p x = 1 /\ f_inf (FPNum_neg x) = false /\ FPNum_neg x = mkfp (-1) 200 1 1 false false.
Proof. exact neg_flagged_infinity. Qed.

(* ---------------------------------------------------------------- FPNum(v, fmt) denotes the IEEE-754 value of the pattern *)
(* every integer v (only its low 1+ew+mw bits matter): zeros, subnormals, normals, infinities, NaNs; sign of zero included *)
Theorem C12_fpnum_decode_sp : forall v, let x := FPNum_from_ieee754 fmt_sp v in
  xeq (xval x) (ieee_value 8 23 v) /\ (f_s x <? 0) = ieee_neg 8 23 v /\ wf x.
Proof. exact decode_sp. Qed.
Theorem C12_fpnum_decode_dp : forall v, let x := FPNum_from_ieee754 fmt_dp v in
  xeq (xval x) (ieee_value 11 52 v) /\ (f_s x <? 0) = ieee_neg 11 52 v /\ wf x.
Proof. exact decode_dp. Qed.
(* any format whose literals are the standard ones and whose subnormal exponent is 1 - bias *)
Theorem C12_fpnum_decode_any_format : forall ew mw sube nanm, 1 <= ew -> 0 <= mw -> forall v,
  (sube = 1 - ieee_bias ew \/ fld_e ew mw v <> 0 \/ fld_m ew mw v = 0) ->
  let x := FPNum_from_ieee754 (fmt_std ew mw sube nanm) v in
  xeq (xval x) (ieee_value ew mw v) /\ (f_s x <? 0) = ieee_neg ew mw v /\ wf x.
Proof. exact decode_exact. Qed.
(* half precision: all 2^16 patterns, subnormals included (exponent -14 since 8541cf4) *)
Theorem C12_fpnum_decode_hp : forall v, let x := FPNum_from_ieee754 fmt_hp v in
  xeq (xval x) (ieee_value 5 10 v) /\ (f_s x <? 0) = ieee_neg 5 10 v /\ wf x.
Proof. exact decode_hp. Qed.
Example C12_fpnum_decode_hp_ex :        (* smallest and largest half subnormal *)
  xeqb (xval (FPNum_from_ieee754 fmt_hp 1)) (XFin (1 # 16777216)) = true /\ xeqb (xval (FPNum_from_ieee754 fmt_hp 0x83FF)) (XFin (-(1023 # 16777216))) = true.
Proof. vm_compute. split; reflexivity. Qed.

(* ---------------------------------------------------------------- FPNum(v, fmt).convert(fmt) = v : every non-NaN pattern *)
(* all 2^16 - 2^11 + 2, 2^32 - 2^24 + 2, 2^64 - 2^53 + 2 non-NaN patterns, by reasoning on the normal form (no enumeration) *)
Theorem C12_fpnum_round_trip_hp : forall v, 0 <= v < 2 ^ 16 -> (fld_e 5 10 v = 31 -> fld_m 5 10 v = 0) ->
  FPNum_convert fmt_hp (FPNum_from_ieee754 fmt_hp v) = v.
Proof. exact round_trip_hp. Qed.
Theorem C12_fpnum_round_trip_sp : forall v, 0 <= v < 2 ^ 32 -> (fld_e 8 23 v = 255 -> fld_m 8 23 v = 0) ->
  FPNum_convert fmt_sp (FPNum_from_ieee754 fmt_sp v) = v.
Proof. exact round_trip_sp. Qed.
Theorem C12_fpnum_round_trip_dp : forall v, 0 <= v < 2 ^ 64 -> (fld_e 11 52 v = 2047 -> fld_m 11 52 v = 0) ->
  FPNum_convert fmt_dp (FPNum_from_ieee754 fmt_dp v) = v.
Proof. exact round_trip_dp. Qed.
Example C12_fpnum_round_trip_ex :      (* smallest subnormal, largest finite, -0, +inf; half: smallest / largest subnormal *)
  map (fun v => FPNum_convert fmt_dp (FPNum_from_ieee754 fmt_dp v)) [1; 0x7FEFFFFFFFFFFFFF; 0x8000000000000000; 0x7FF0000000000000]
  = [1; 0x7FEFFFFFFFFFFFFF; 0x8000000000000000; 0x7FF0000000000000] /\
  map (fun v => FPNum_convert fmt_hp (FPNum_from_ieee754 fmt_hp v)) [1; 0x03FF; 0x8001] = [1; 0x03FF; 0x8001].
Proof. vm_compute. split; reflexivity. Qed.
(* any standard format; NaN patterns come back as the format's quiet NaN *)
Theorem C12_fpnum_round_trip_any_format : forall ew mw sube nanm, 2 <= ew -> 0 <= mw -> forall v,
  0 <= v < 2 ^ (1 + ew + mw) -> (fld_e ew mw v = 2 ^ ew - 1 -> fld_m ew mw v = 0) ->
  (sube = 1 - (2 ^ (ew - 1) - 1) \/ fld_e ew mw v <> 0 \/ fld_m ew mw v = 0) ->
  FPNum_convert (fmt_std ew mw sube nanm) (FPNum_from_ieee754 (fmt_std ew mw sube nanm) v) = v.
Proof. exact round_trip. Qed.
Theorem C12_fpnum_round_trip_nan : forall ew mw sube nanm, 2 <= ew -> 0 <= mw -> forall v,
  fld_e ew mw v = 2 ^ ew - 1 -> fld_m ew mw v <> 0 ->
  FPNum_convert (fmt_std ew mw sube nanm) (FPNum_from_ieee754 (fmt_std ew mw sube nanm) v) = FPNum_pack (std_layout ew mw) 0 (2 ^ ew - 1) nanm.
Proof. exact round_trip_nan. Qed.
(* ---------------------------------------------------------------- FloatingPointHelper.ieee754_to_sp / ieee754_to_dp *)
(* the float returned (model over dyadic rationals, float glue tied by correspondence only) is the IEEE value of the pattern *)
Theorem C12_fph_decode_sp_partial : forall v, 0 <= v < 2 ^ 32 ->
  let x := FPH_from_ieee754 fph_sp v in xeq (pf_value x) (ieee_value 8 23 v) /\ (x = PNaN \/ pf_neg x = ieee_neg 8 23 v).
Proof. exact fph_decode_sp. Qed.
Theorem C12_fph_decode_dp_partial : forall v, 0 <= v < 2 ^ 64 ->
  let x := FPH_from_ieee754 fph_dp v in xeq (pf_value x) (ieee_value 11 52 v) /\ (x = PNaN \/ pf_neg x = ieee_neg 11 52 v).
Proof. exact fph_decode_dp. Qed.
Example C12_fph_decode_ex : FPH_from_ieee754 fph_sp 0x80000001 = PFin true 1 149 /\ FPH_from_ieee754 fph_dp 0x8000000000000000 = PFin true 0 0.
Proof. vm_compute. split; reflexivity. Qed.

(* sp/dp_to_ieee754(ieee754_to_sp/dp(v)) = v for every non-NaN pattern (same model over dyadic rationals; round() as
   round-half-even of the exact value), -0.0 included (single precision keeps its sign since 8d56487) *)
Theorem C12_fph_encode_decode_dp_partial : forall v, 0 <= v < 2 ^ 64 -> (fld_e 11 52 v = 2047 -> fld_m 11 52 v = 0) ->
  FPH_to_ieee754 fph_dp (FPH_from_ieee754 fph_dp v) = v.
Proof. exact encode_decode_dp. Qed.
Theorem C12_fph_encode_decode_sp_partial : forall v, 0 <= v < 2 ^ 32 -> (fld_e 8 23 v = 255 -> fld_m 8 23 v = 0) ->
  FPH_to_ieee754 fph_sp (FPH_from_ieee754 fph_sp v) = v.
Proof. exact encode_decode_sp. Qed.
(* stronger: the encoder is exact on EVERY representable value, however the float is written as n / 2^d: if x denotes the value
   of the non-NaN pattern v (same sign) then encoding x gives v *)
Theorem C12_fph_encode_exact_dp_partial : forall x v, 0 <= v < 2 ^ 64 ->
  match x with PNaN => False | PInf _ => True | PFin _ n _ => 0 <= n end ->
  xeq (pf_value x) (ieee_value 11 52 v) -> pf_neg x = ieee_neg 11 52 v -> FPH_to_ieee754 fph_dp x = v.
Proof. exact encode_exact_dp. Qed.
Theorem C12_fph_encode_exact_sp_partial : forall x v, 0 <= v < 2 ^ 32 ->
  match x with PNaN => False | PInf _ => True | PFin _ n _ => 0 <= n end ->
  xeq (pf_value x) (ieee_value 8 23 v) -> pf_neg x = ieee_neg 8 23 v -> FPH_to_ieee754 fph_sp x = v.
Proof. exact encode_exact_sp. Qed.
Example C12_fph_encode_exact_ex :     (* 0.15625 = 5/32 written as 40/256 *)
  xeqb (pf_value (PFin false 40 8)) (ieee_value 8 23 0x3E200000) = true /\ FPH_to_ieee754 fph_sp (PFin false 40 8) = 0x3E200000.
Proof. vm_compute. split; reflexivity. Qed.
Example C12_fph_encode_ex :       (* ties round to even; overflow to infinity; below half the smallest subnormal to zero *)
  map (FPH_to_ieee754 fph_sp) [PFin false 16777217 24; PFin false 16777219 24; PFin false 1 150; PFin false 3 151; PFin false (2 ^ 128) 0; PFin true 33554431 (-103); PFin true 0 0]
  = [0x3F800000; 0x3F800002; 0; 1; 0x7F800000; 0xFF800000; 0x80000000].
Proof. vm_compute. reflexivity. Qed.

(* ---------------------------------------------------------------- FPNum(float) *)
(* closed-form model of convert_float_to_semp / adjust_sem on the finite double (-1)^neg * n / 2^d (float glue: tied by
   correspondence only): the resulting number is well formed and denotes the float exactly, sign of zero included *)
Theorem C12_fpnum_of_float_partial : forall neg n d, 0 <= n ->
  let x := FPNum_of_finite neg n d in
  wf x /\ f_inf x = false /\ f_nan x = false /\ (f_s x <? 0) = neg /\ xeq (xval x) (pf_value (PFin neg n d)).
Proof. exact of_finite_exact. Qed.
Example C12_fpnum_of_float_ex : FPNum_of_finite false 3602879701896397 55 = mkfp 1 (-4) 3602879701896397 2251799813685248 false false.   (* FPNum(0.1) *)
Proof. vm_compute. reflexivity. Qed.

(* ---------------------------------------------------------------- the spec itself: ieee_value = Flocq's reading of the bits *)
(* Spec.C12.ieee_value (rationals) agrees with Flocq's IEEE754.Bits.b32_of_bits / b64_of_bits on class, sign and real value
   for every pattern.  These two statements (and only these) live over Coq's real numbers: Print Assumptions lists the
   standard-library axioms behind Coq's classical reals and Flocq: ClassicalDedekindReals.sig_forall_dec, ClassicalDedekindReals.sig_not_dec,
   FunctionalExtensionality.functional_extensionality_dep, Classical_Prop.classic.  Every other theorem of this file is closed. *)
From V Require Proofs.C12.FlocqSpec.
Theorem C12_spec_is_flocq_b32 : forall v, 0 <= v < 2 ^ 32 ->
  match ieee_value 8 23 v with
  | XNaN => Flocq.IEEE754.Binary.is_nan 24 128 (Flocq.IEEE754.Bits.b32_of_bits v) = true
  | XInf s => Flocq.IEEE754.Bits.b32_of_bits v = Flocq.IEEE754.Binary.B754_infinity 24 128 s
  | XFin q => Flocq.IEEE754.Binary.is_finite 24 128 (Flocq.IEEE754.Bits.b32_of_bits v) = true /\
              Flocq.IEEE754.Binary.B2R 24 128 (Flocq.IEEE754.Bits.b32_of_bits v) = Coq.Reals.Rdefinitions.Q2R q /\
              Flocq.IEEE754.Binary.Bsign 24 128 (Flocq.IEEE754.Bits.b32_of_bits v) = ieee_neg 8 23 v
  end.
Proof. exact FlocqSpec.ieee_value_is_flocq_b32. Qed.
Theorem C12_spec_is_flocq_b64 : forall v, 0 <= v < 2 ^ 64 ->
  match ieee_value 11 52 v with
  | XNaN => Flocq.IEEE754.Binary.is_nan 53 1024 (Flocq.IEEE754.Bits.b64_of_bits v) = true
  | XInf s => Flocq.IEEE754.Bits.b64_of_bits v = Flocq.IEEE754.Binary.B754_infinity 53 1024 s
  | XFin q => Flocq.IEEE754.Binary.is_finite 53 1024 (Flocq.IEEE754.Bits.b64_of_bits v) = true /\
              Flocq.IEEE754.Binary.B2R 53 1024 (Flocq.IEEE754.Bits.b64_of_bits v) = Coq.Reals.Rdefinitions.Q2R q /\
              Flocq.IEEE754.Binary.Bsign 53 1024 (Flocq.IEEE754.Bits.b64_of_bits v) = ieee_neg 11 52 v
  end.
Proof. exact FlocqSpec.ieee_value_is_flocq_b64. Qed.

(* ================================================================ HISTORY: what the code did before its repairs ================
   Not property theorems: Examples about the explicitly old model instances (FPNum_compare_with, fmt_hp_before_8541cf4,
   fph_sp_before_8d56487, FixedPoint_intToFixedPoint_before_6fe767a).  They document why the repairs were needed and are the
   behaviours the check's probe looks for to notice a regression. *)
Example C12_fx_no_integer_bits_before_repair_6fe767a : forall sw fw a b,       (* finding #23: every operation raised for iw = 0 *)
  FixedPoint_add_gen FixedPoint_intToFixedPoint_before_6fe767a sw 0 fw a b = None /\
  FixedPoint_sub_gen FixedPoint_intToFixedPoint_before_6fe767a sw 0 fw a b = None /\
  FixedPoint_mult_gen FixedPoint_intToFixedPoint_before_6fe767a sw 0 fw a b = None.
Proof. exact fx_iw0_raised_before. Qed.
Example C12_fx_same_before_repair_6fe767a : forall sw iw fw v, 1 <= iw ->        (* the repair changed nothing for iw >= 1 *)
  FixedPoint_intToFixedPoint sw iw fw v = FixedPoint_intToFixedPoint_before_6fe767a sw iw fw v.
Proof. exact intToFixedPoint_same_as_before. Qed.
Example C12_fpnum_compare_signed_zero_before_repair_b24d7f8 :                   (* finding C12-CMP-ZERO: -0 was ordered below +0 *)
  let a := mkfp (-1) (-1) 0 1 false false in let b := mkfp 1 (-1) 0 1 false false in
  FPNum_compare_with true false a b = -1 /\ FPNum_compare_with true false b a = 1 /\ Qcompare (fval a) (fval b) = Eq.
Proof. exact compare_signed_zero_before. Qed.
Example C12_fpnum_compare_infinities_before_repair_f0972ae :                    (* finding C12-CMP-INF: compare(-inf, +inf) was 1 *)
  let ninf := mkfp (-1) 0 0 0 true false in let pinf := mkfp 1 0 0 0 true false in
  FPNum_compare_with false false ninf pinf = 1 /\ FPNum_compare_with false false pinf ninf = 1.
Proof. exact compare_inf_inf_before. Qed.
Example C12_fpnum_compare_finite_before_repairs : forall inf_fix zero_fix a b, wf a -> wf b ->   (* every version agreed on finite operands, signed zeros apart *)
  f_inf a = false -> f_nan a = false -> f_inf b = false -> f_nan b = false ->
  (zero_fix = true \/ f_s a = f_s b \/ 0 < f_m a \/ 0 < f_m b) ->
  FPNum_compare_with inf_fix zero_fix a b = cmpZ (Qcompare (fval a) (fval b)).
Proof. exact compare_finite_with. Qed.
Example C12_fpnum_decode_hp_subnormal_before_repair_8541cf4 : forall v, fld_e 5 10 v = 0 ->     (* finding #21: a quarter of the value *)
  let x := FPNum_from_ieee754 fmt_hp_before_8541cf4 v in
  f_inf x = false /\ f_nan x = false /\
  (fval x == (1 # 4) * (sgnq (fld_s 5 10 v =? 1) * ieee_mag 5 10 0 (fld_m 5 10 v)))%Q.
Proof. exact decode_hp_subnormal_quarter_before. Qed.
Example C12_fpnum_round_trip_hp_before_repair_8541cf4 :                         (* finding #21: 0x0001 came back as 0, 0x03FF as 0x00FF *)
  FPNum_convert fmt_hp_before_8541cf4 (FPNum_from_ieee754 fmt_hp_before_8541cf4 1) = 0 /\
  FPNum_convert fmt_hp_before_8541cf4 (FPNum_from_ieee754 fmt_hp_before_8541cf4 1023) = 255.
Proof. exact round_trip_hp_witness_before. Qed.
Example C12_fph_sp_neg_zero_before_repair_8d56487 :                             (* finding #16: -0.0 encoded as 0x00000000 *)
  FPH_to_ieee754 fph_sp_before_8d56487 (PFin true 0 0) = 0 /\ FPH_to_ieee754 fph_sp (PFin true 0 0) = 2 ^ 31 /\
  FPH_from_ieee754 fph_sp (2 ^ 31) = PFin true 0 0.
Proof. exact encode_sp_neg_zero_before. Qed.

Print Assumptions C12_c2_round_trip.
Print Assumptions C12_c2_converse.
Print Assumptions C12_signed_to_c2_spec.
Print Assumptions C12_c2_to_signed_spec.
Print Assumptions C12_signExtend_spec.
Print Assumptions C12_fx_add.
Print Assumptions C12_fx_sub.
Print Assumptions C12_fx_mult.
Print Assumptions C12_fx_of_int.
Print Assumptions C12_fx_to_float_signed.
Print Assumptions C12_fx_to_float_unsigned.
Print Assumptions C12_fx_mult_small.
Print Assumptions C12_fx_mult_unsigned_refuted.
Print Assumptions C12_layouts.
Print Assumptions C12_unpack_pack.
Print Assumptions C12_unpack_pack_any.
Print Assumptions C12_pack_unpack.
Print Assumptions C12_unpack_fields.
Print Assumptions C12_fph_unpack.
Print Assumptions C12_fpnum_normalise.
Print Assumptions C12_fpnum_add_exact.
Print Assumptions C12_fpnum_sub_exact.
Print Assumptions C12_fpnum_mul_exact.
Print Assumptions C12_fpnum_mul_special.
Print Assumptions C12_fpnum_compare_total.
Print Assumptions C12_fpnum_compare_exact.
Print Assumptions C12_fpnum_compare_nan.
Print Assumptions C12_fpnum_reduce_exponent.
Print Assumptions C12_fpnum_neg_exact.
Print Assumptions C12_fpnum_abs_exact.
Print Assumptions C12_fpnum_div2_exact.
Print Assumptions C12_fpnum_unary_special.
Print Assumptions C12_fpnum_reduce_precision.
Print Assumptions C12_fpnum_reduce_precision_rounding.
Print Assumptions C12_fpnum_decode_sp.
Print Assumptions C12_fpnum_decode_dp.
Print Assumptions C12_fpnum_decode_any_format.
Print Assumptions C12_fpnum_decode_hp.
Print Assumptions C12_fpnum_round_trip_hp.
Print Assumptions C12_fpnum_round_trip_sp.
Print Assumptions C12_fpnum_round_trip_dp.
Print Assumptions C12_fpnum_round_trip_any_format.
Print Assumptions C12_fpnum_round_trip_nan.
Print Assumptions C12_fph_decode_sp_partial.
Print Assumptions C12_fph_decode_dp_partial.
Print Assumptions C12_fph_encode_decode_dp_partial.
Print Assumptions C12_fph_encode_decode_sp_partial.
Print Assumptions C12_fph_encode_exact_dp_partial.
Print Assumptions C12_fph_encode_exact_sp_partial.
Print Assumptions C12_fpnum_of_float_partial.
Print Assumptions C12_spec_is_flocq_b32.
Print Assumptions C12_spec_is_flocq_b64.
