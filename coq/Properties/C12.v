(* C12 — Number-format helpers are bit-exact and arithmetically exact.
   Statements only; proofs are in Proofs/C12/*.v.
   IntegerHelper_signed_to_c2 / IntegerHelper_c2_to_signed / signExtend are REGENERATED from py4hw/helper.py on every
   run (Gen/Helpers.v); everything else is the hand-written model (Model/HelperInt.v, Model/FPNum.v, Model/FPHelper.v)
   tied to the code by the correspondence sweep of py/props/c12.py. *)
From V Require Import Base.Bits Gen.Helpers Spec.C12 Model.HelperInt Proofs.C12.Int.
Open Scope Z_scope.

(* ---------------------------------------------------------------- two's complement (regenerated code) *)
(* every width, every representable value *)
Theorem C12_c2_round_trip : forall w v, 1 <= w -> - 2 ^ (w - 1) <= v < 2 ^ (w - 1) ->
  IntegerHelper_c2_to_signed (IntegerHelper_signed_to_c2 v w) w = v.
Proof. exact c2_round_trip. Qed.
Example C12_c2_round_trip_ex : IntegerHelper_c2_to_signed (IntegerHelper_signed_to_c2 (-128) 8) 8 = -128.
Proof. reflexivity. Qed.

(* the converse: every w-bit pattern *)
Theorem C12_c2_converse : forall w u, 1 <= w -> 0 <= u < 2 ^ w ->
  IntegerHelper_signed_to_c2 (IntegerHelper_c2_to_signed u w) w = u.
Proof. exact c2_converse. Qed.
Example C12_c2_converse_ex : IntegerHelper_signed_to_c2 (IntegerHelper_c2_to_signed 255 8) 8 = 255.
Proof. reflexivity. Qed.

(* what the two functions compute for EVERY integer argument (negative, oversized) *)
Theorem C12_signed_to_c2_spec : forall w v, 0 <= w ->
  0 <= IntegerHelper_signed_to_c2 v w < 2 ^ w /\ IntegerHelper_signed_to_c2 v w = v mod 2 ^ w.
Proof. exact signed_to_c2_spec. Qed.
Theorem C12_c2_to_signed_spec : forall w u, 1 <= w ->
  - 2 ^ (w - 1) <= IntegerHelper_c2_to_signed u w < 2 ^ (w - 1) /\
  (IntegerHelper_c2_to_signed u w) mod 2 ^ w = u mod 2 ^ w.
Proof. exact c2_to_signed_spec. Qed.

(* signExtend(v, w, nw): the nw-bit two's complement pattern of the signed reading of the low w bits of v *)
Theorem C12_signExtend_spec : forall v w nw, 1 <= w -> w <= nw ->
  signExtend v w nw = (c2_decode w v) mod 2 ^ nw.
Proof. exact signExtend_char. Qed.
Example C12_signExtend_ex : signExtend 0x1F5 8 16 = 0xFFF5.     (* bits above w are dropped first *)
Proof. reflexivity. Qed.

(* ---------------------------------------------------------------- FixedPoint on raw encodings, every format with iw >= 1 *)
Theorem C12_fx_add : forall sw iw fw a b, 0 <= sw -> 1 <= iw -> 0 <= fw ->
  FixedPoint_add sw iw fw a b = Some ((a + b) mod 2 ^ (sw + iw + fw)).
Proof. exact fx_add_ok. Qed.
Theorem C12_fx_sub : forall sw iw fw a b, 0 <= sw -> 1 <= iw -> 0 <= fw ->
  FixedPoint_sub sw iw fw a b = Some ((a - b) mod 2 ^ (sw + iw + fw)).
Proof. exact fx_sub_ok. Qed.
(* product of the signed readings, fw low bits truncated (floor), modulo 2^w *)
Theorem C12_fx_mult : forall sw iw fw a b, 0 <= sw -> 1 <= iw -> 0 <= fw ->
  FixedPoint_mult sw iw fw a b =
  Some (((c2_decode (sw + iw + fw) a * c2_decode (sw + iw + fw) b) / 2 ^ fw) mod 2 ^ (sw + iw + fw)).
Proof. exact fx_mult_ok. Qed.
Example C12_fx_ex : FixedPoint_mult 1 3 4 (c2_encode 8 (-24)) 20 = Some (c2_encode 8 (-30)).   (* -1.5 * 1.25 = -1.875 *)
Proof. reflexivity. Qed.
Theorem C12_fx_of_int : forall sw iw fw v, 0 <= sw -> 1 <= iw -> 0 <= fw -> (0 <= v \/ sw <> 0) -> v <= 2 ^ (iw - 1) ->
  FixedPoint_intToFixedPoint sw iw fw v = Some ((v * 2 ^ fw) mod 2 ^ (sw + iw + fw)).
Proof. exact intToFixedPoint_spec. Qed.
(* guard iw >= 1 is needed: finding #23 *)
Theorem C12_fx_no_integer_bits_refuted : forall sw fw a b,
  FixedPoint_add sw 0 fw a b = None /\ FixedPoint_sub sw 0 fw a b = None /\ FixedPoint_mult sw 0 fw a b = None.
Proof. exact fx_iw0_raises. Qed.
(* the product is of the SIGNED readings even for an unsigned format (sw = 0): below the top bit it is the plain product ... *)
Theorem C12_fx_mult_small : forall sw iw fw a b, 0 <= sw -> 1 <= iw -> 0 <= fw ->
  0 <= a < 2 ^ (sw + iw + fw - 1) -> 0 <= b < 2 ^ (sw + iw + fw - 1) ->
  FixedPoint_mult sw iw fw a b = Some (((a * b) / 2 ^ fw) mod 2 ^ (sw + iw + fw)).
Proof. exact fx_mult_small. Qed.
(* ... and with the top bit set it is not: FixedPoint(0,2,1, 2).mult(0.5) = 3.0 *)
Theorem C12_fx_mult_unsigned_refuted :
  FixedPoint_mult 0 2 1 4 1 = Some 6 /\ ((4 * 1) / 2 ^ 1) mod 2 ^ 3 = 2.
Proof. exact fx_mult_unsigned_topbit. Qed.

(* ---------------------------------------------------------------- field pack / unpack: every format, every pattern *)
(* std_layout ew mw = sign at bit ew+mw, exponent field of ew bits at bit mw, mw mantissa bits; the code's three
   literal layouts are instances *)
Theorem C12_layouts : layout_hp = std_layout 5 10 /\ layout_sp = std_layout 8 23 /\ layout_dp = std_layout 11 52.
Proof. exact layouts_std. Qed.
Theorem C12_unpack_pack : forall ew mw s e m, 0 <= ew -> 0 <= mw -> 0 <= s <= 1 -> 0 <= e < 2 ^ ew -> 0 <= m < 2 ^ mw ->
  FPNum_unpack (std_layout ew mw) (FPNum_pack (std_layout ew mw) s e m) = (s, e, m).
Proof. exact unpack_pack_id. Qed.
Theorem C12_unpack_pack_any : forall ew mw s e m, 0 <= ew -> 0 <= mw ->     (* any integers: fields are reduced *)
  FPNum_unpack (std_layout ew mw) (FPNum_pack (std_layout ew mw) s e m) = (s mod 2, e mod 2 ^ ew, m mod 2 ^ mw).
Proof. exact unpack_pack. Qed.
Theorem C12_pack_unpack : forall ew mw v, 0 <= ew -> 0 <= mw -> 0 <= v < 2 ^ (1 + ew + mw) ->
  (let '(s, e, m) := FPNum_unpack (std_layout ew mw) v in FPNum_pack (std_layout ew mw) s e m) = v.
Proof. exact pack_unpack_id. Qed.
Example C12_pack_unpack_ex : (let '(s, e, m) := FPNum_unpack layout_dp 0xC005BF0A89F1B0DD in (s, e, m, FPNum_pack layout_dp s e m))
                             = (1, 0x400, 0x5BF0A89F1B0DD, 0xC005BF0A89F1B0DD).
Proof. reflexivity. Qed.
(* the fields are the arithmetic fields of the pattern *)
Theorem C12_unpack_fields : forall ew mw v, 0 <= ew -> 0 <= mw ->
  FPNum_unpack (std_layout ew mw) v = (fld_s ew mw v, fld_e ew mw v, fld_m ew mw v).
Proof. exact unpack_fields. Qed.
(* FloatingPointHelper.unpack_ieee754_*_parts does not mask the sign: same result on patterns of the format *)
Theorem C12_fph_unpack : forall ew mw v, 0 <= ew -> 0 <= mw -> 0 <= v < 2 ^ (1 + ew + mw) ->
  FPH_unpack (std_layout ew mw) v = FPNum_unpack (std_layout ew mw) v.
Proof. exact fph_unpack_eq. Qed.

Print Assumptions C12_c2_round_trip.
Print Assumptions C12_c2_converse.
Print Assumptions C12_signed_to_c2_spec.
Print Assumptions C12_c2_to_signed_spec.
Print Assumptions C12_signExtend_spec.
Print Assumptions C12_fx_add.
Print Assumptions C12_fx_sub.
Print Assumptions C12_fx_mult.
Print Assumptions C12_fx_of_int.
Print Assumptions C12_fx_no_integer_bits_refuted.
Print Assumptions C12_fx_mult_small.
Print Assumptions C12_fx_mult_unsigned_refuted.
Print Assumptions C12_layouts.
Print Assumptions C12_unpack_pack.
Print Assumptions C12_unpack_pack_any.
Print Assumptions C12_pack_unpack.
Print Assumptions C12_unpack_fields.
Print Assumptions C12_fph_unpack.
