(* C18 — a schematic shows the circuit that exists: every block once, wired as built.
   Statements only; proofs are in Proofs/C18/Sound.v (validator soundness), Proofs/C18/Complete.v (completeness) and Proofs/C18/Examples.v (real dumped layouts).

   Technique: translation validation with a PROVED checker.  The heuristic placer (py4hw/schematic.py) is not
   modelled; on every run the real  Schematic(obj)  is executed, its result and the block's real connectivity are
   dumped as terms (circuit, layout) of Model/Schem.v and  schem_ok c l  is evaluated by vm_compute.  The theorems
   below say what an answer `true` establishes: the declarative statement SchemOK of Spec/C18.v, whose connectivity
   clause is an inductive path relation — the fuel-bounded reachability closure is proved, not trusted. *)
From Coq Require Import List ZArith Bool Arith.
Import ListNotations.
From V Require Import Model.Schem Spec.C18 Proofs.C18.Sound Proofs.C18.Complete Proofs.C18.Examples.
From V Require Import Model.Placer Proofs.C18.Placer.

(* the dumped connectivity is one: distinct wire ids, every wire driven by a block in-port or a child output pin, read
   by child input pins / block out-ports, and no pin on two wires *)
Theorem C18_circ_check_sound : forall c, circ_ok c = true -> CircWF c.
Proof. exact circ_ok_sound. Qed.

(* for EVERY circuit and EVERY layout (any number of symbols, nets, markers; any coordinates): if the validator says
   true then (1) every child and port has exactly one instance/port symbol and there is no other, (2) no two of them
   share a cell or overlap, (3) for every wire all its nets form one figure connected to the driver pin which reaches
   and touches every reader pin, (4) every net end names only a pin of its own wire (and of no other wire), on the
   symbol that stands for the pin's owner, (5) pins of different wires are never drawn at one point, every net is routed
   and its polyline starts / ends exactly on the pins its ends name, (6) the point a symbol computes for a pin lies on the
   marker the symbol paints for that pin *)
Theorem C18_check_sound : forall c l, schem_ok c l = true -> SchemOK c l.
Proof. exact schem_ok_sound. Qed.

(* conversely the validator never rejects a schematic that satisfies the declarative statement (no false alarm relative
   to Spec/C18.v): the closure reaches its fixpoint within the fuel 2|E|+2 and a fixpoint that contains the driver
   contains every point connected to it *)
Theorem C18_check_complete : forall c l, SchemOK c l -> schem_ok c l = true.
Proof. exact schem_ok_complete. Qed.

Theorem C18_check_decides : forall c l, schem_ok c l = true <-> SchemOK c l.
Proof. exact schem_ok_iff. Qed.

(* the closure computed by the validator contains only points connected (Spec.C18.connected) to the start set *)
Theorem C18_reach_sound :
  forall l wid root fuel, NoDup (map s_id (l_syms l)) ->
    Forall (connected l wid root) (reach fuel (edges l wid) [root]).
Proof. exact reach_connected. Qed.

(* non-vacuity: real layouts produced by py4hw for Add (pass-through markers) and Counter (a feedback loop through
   the register, 27 symbols, 30 nets) satisfy the hypothesis, hence the declarative statement *)
Example C18_real_add_accepted : schem_ok ex_add_c ex_add_l = true.
Proof. exact ex_add_accepted. Qed.
Example C18_real_counter_accepted : schem_ok ex_counter_c ex_counter_l = true.
Proof. exact ex_counter_accepted. Qed.
Example C18_real_counter_SchemOK : SchemOK ex_counter_c ex_counter_l.
Proof. exact ex_counter_SchemOK. Qed.

(* negative: the Add layout with ONE net dropped is rejected, the diagnosis names wire 0, and the declarative
   statement is really false of it (so SchemOK is not trivially true) *)
Example C18_dropped_net_rejected : schem_ok ex_add_c ex_add_dropped_l = false.
Proof. exact ex_add_dropped_rejected. Qed.
Example C18_dropped_net_not_SchemOK : ~ SchemOK ex_add_c ex_add_dropped_l.
Proof. exact ex_add_dropped_not_SchemOK. Qed.

(* pin geometry: a block with an Add child that has a carry output is accepted as py4hw draws it; the same picture with the
   carry pin drawn on the sum pin (pins of two wires at one point), or with one net ending one pixel off the pin it names,
   is rejected and violates the declarative statement *)
Example C18_addco_accepted : schem_ok ex_addco_c ex_addco_l = true.
Proof. exact ex_addco_accepted. Qed.
Example C18_coincident_pins_not_SchemOK : ~ SchemOK ex_addco_c ex_addco_clash_l.
Proof. exact ex_addco_clash_not_SchemOK. Qed.
Example C18_net_off_pin_not_SchemOK : ~ SchemOK ex_addco_c ex_addco_offpin_l.
Proof. exact ex_addco_offpin_not_SchemOK. Qed.

(* painted markers: a block whose Mux child reads wire b on two inputs is accepted as py4hw draws it; the same picture with pin
   in1 COMPUTED at the point of in2 (what a pin lookup by wire yields: both nets of b end on in2) satisfies every other clause but
   contradicts the marker the symbol paints for in1: rejected, not SchemOK *)
Example C18_dup_accepted : schem_ok ex_dup_c ex_dup_l = true.
Proof. exact ex_dup_accepted. Qed.
Example C18_pin_off_its_marker_not_SchemOK : ~ SchemOK ex_dup_c ex_dup_bywire_l.
Proof. exact ex_dup_bywire_not_SchemOK. Qed.

(* C18-F1 (repaired in /repo by ead5329, switched by fixes/C18_switch.py): the layout py4hw USED TO build for a block that contains
   Reg(d, q, enable=q)  lost the net q -> r.e; kept as a negative example: it is rejected and violates the declarative statement *)
Example C18_selfloop_old_layout_rejected : schem_ok ex_selfloop_c ex_selfloop_l = false /\ ~ SchemOK ex_selfloop_c ex_selfloop_l.
Proof. exact (conj ex_selfloop_rejected ex_selfloop_not_SchemOK). Qed.
(* with fixes/C18-F1.diff applied the same block is drawn with the feedback stop marker in the column before the register and
   the net fZ -> r.e present: accepted, hence SchemOK *)
Example C18_selfloop_repaired_SchemOK : SchemOK ex_selfloop_c ex_selfloop_repaired_l.
Proof. exact ex_selfloop_repaired_SchemOK. Qed.

(* C18-F2 (repaired in /repo by c335649, switched by fixes/C18_switch.py): the layout py4hw USED TO build for a block that contains an Add
   with carry input drew the adder's input pins b and ci at one point; kept as a negative example *)
Example C18_addci_old_layout_rejected : schem_ok ex_addci_c ex_addci_l = false /\ ~ SchemOK ex_addci_c ex_addci_l.
Proof. exact (conj ex_addci_rejected ex_addci_not_SchemOK). Qed.
(* with fixes/C18-F2.diff applied the same block is accepted *)
Example C18_addci_repaired_SchemOK : SchemOK ex_addci_c ex_addci_repaired_l.
Proof. exact ex_addci_repaired_SchemOK. Qed.

(* ---- the first piece of the PLACER under a theorem (hand-written model Model/Placer.v of Schematic.replaceAsColRow, schematic.py
   2152-2217; NOT yet tied to the code by a per-run comparison — docs/C18.md).   For EVERY grid of symbols (any number of rows and
   columns, any cell empty or holding a symbol of ANY width and height, even ragged rows), every list of channels and every setting of
   the class constants: if the four margins are not negative (the code uses 15 / 5 / 15 / 10) and no channel has a negative number of
   tracks, then the coordinates the pass assigns make any two distinct symbols of the grid apart in the sense of the validator
   (apartb: not in one cell, rectangles do not overlap):  (1) all_pairs apartb of the output, (2) any two different positions of the
   output list, in both orders, (3) any two different non-empty cells (r, c) <> (r', c') inside the shape are both in the output and
   apart.  No hypothesis on the symbol sizes is needed. *)
Theorem C18_placer_no_overlap :
  forall cfg chans nc m, cfg_okb cfg = true -> chans_okb chans = true ->
    all_pairs apartb (place cfg chans nc m) = true /\
    (forall i j a b, i <> j -> nth_error (place cfg chans nc m) i = Some a -> nth_error (place cfg chans nc m) j = Some b ->
       apartb a b = true) /\
    (forall r c r' c' s s', (c < nc)%nat -> (c' < nc)%nat -> cell_at m r c = Some s -> cell_at m r' c' = Some s' -> (r, c) <> (r', c') ->
       In (mk_sym cfg chans nc m r c s) (place cfg chans nc m) /\ In (mk_sym cfg chans nc m r' c' s') (place cfg chans nc m) /\
       apartb (mk_sym cfg chans nc m r c s) (mk_sym cfg chans nc m r' c' s') = true).
Proof. exact place_no_overlap. Qed.

(* the output is exactly the non-empty cells inside the shape, each with the x of its column and the y of its row (so the theorem
   above is not about an empty or truncated list) *)
Theorem C18_placer_output :
  forall cfg chans nc m a,
    In a (place cfg chans nc m) <->
    exists r c s, (r < length m)%nat /\ (c < nc)%nat /\ cell_at m r c = Some s /\ a = mk_sym cfg chans nc m r c s.
Proof. exact place_In. Qed.

(* corollary: when, in addition, every instance / port symbol of the grid has positive width and height, the validator's geometry
   clause accepts the placer's output (whatever nets / pins / markers the layout has: chk_geom reads the symbols only) *)
Theorem C18_placer_chk_geom :
  forall cfg chans nc m nets pins marks, cfg_okb cfg = true -> chans_okb chans = true -> sizes_posb m = true ->
    chk_geom (Lay (place cfg chans nc m) nets pins marks) = true.
Proof. exact place_chk_geom. Qed.

(* non-vacuity on a concrete grid of 3 columns x 2 rows (in-port | And | out-port  /  in-port | empty | pass-through; channels with
   2, 1, 0 forward tracks; the constants of the pinned tree): the guards hold, the coordinates are these, chk_geom says true *)
Example C18_placer_example_guards : cfg_okb py_cfg = true /\ chans_okb ex_chans = true /\ sizes_posb ex_m = true.
Proof. exact ex_place_guards. Qed.
Example C18_placer_example_3x2 :
  place py_cfg ex_chans 3 ex_m =
  [ Sym 0 KIn (Some (EIn 0)) 0 0 0 15 40 20;  Sym 2 KInst (Some (EChild 0)) 0 1 85 15 60 50;  Sym 3 KOut (Some (EOut 0)) 0 2 175 15 40 20;
    Sym 1 KIn (Some (EIn 1)) 1 0 0 80 45 20;  Sym 4 KPass None 1 2 175 80 10 4 ]%Z.
Proof. exact ex_place_value. Qed.
Example C18_placer_example_chk_geom : chk_geom (Lay (place py_cfg ex_chans 3 ex_m) [] [] []) = true.
Proof. exact ex_place_chk_geom. Qed.
(* the margin guard is needed: with CELL_MARGIN_HORIZONTAL = -100 symbols of one row of the same grid overlap *)
Example C18_placer_negative_margin_overlaps : all_pairs apartb (place (PCfg 5 15 (-100) 15 10) ex_chans 3 ex_m) = false.
Proof. exact ex_place_negative_margin_overlaps. Qed.

Print Assumptions C18_circ_check_sound.
Print Assumptions C18_check_sound.
Print Assumptions C18_check_complete.
Print Assumptions C18_check_decides.
Print Assumptions C18_reach_sound.
Print Assumptions C18_placer_no_overlap.
Print Assumptions C18_placer_output.
Print Assumptions C18_placer_chk_geom.
