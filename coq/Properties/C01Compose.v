(* C01, composition — the WHOLE emitted flat design behaves like the WHOLE simulated netlist, on every input stream.
   Statements only (proofs: Proofs/C01/Compose*.v).  Vocabulary (Model/C01Prim.v, no proofs there):
     prim / reginst        one inlinable primitive instance / one Reg instance, over flat net ids (nid = net index, width)
     prim_assigns, reg_proc   the text the emitters print (the inl_* / body_reg_proc of Model/Inline.v, matched per design)
     prim_leaf, reg_leaf      the simulator leaves: the REGENERATED X_propagate / Reg_clock on the instance's widths and constants
     comb_design / comp_design   the kernel design (Model/SimKernel.v) whose wire ids ARE the flat net ids
     match_comb / match_flat  decidable per-design checks (evaluated by vm_compute on every generated design)
     env_ok f env          one value per net, inside the declared width
     sim_rel f gs env s    every kernel wire holds the value of its net (rq nets are private to the text), q = rq, nothing pending,
                           rq = the register's stored value truncated to the width of q
   VSem.settle / edge / vstep / vrun / vsim: the IEEE-1364 cycle semantics of Model/VSem.v; propagateAll / clk / do_step /
   run_states / init_poked: the simulator kernel of Model/SimKernel.v and Model/Trace.v. *)
From V Require Import Base.Bits Gen.WireOps Gen.Helpers Gen.Prims Gen.Seq Model.VSyntax Model.VSem Model.Inline Model.SimKernel Model.Trace
  Model.C01Prim Spec.C04 Proofs.C01.InlineSound Proofs.C01.ComposePrim Proofs.C01.ComposeKernel Proofs.C01.ComposeComb
  Proofs.C01.ComposeSeq Proofs.C01.ComposeMain Proofs.C01.ComposeItems Proofs.C01.ComposeExamples.

(* 1. every covered primitive instance, all widths / constants / in-range input values: its one assign targets the whole result
      net and stores exactly what the regenerated propagate() passes to Wire.put *)
Theorem C01_prim_sound : forall env p, prim_wf p = true -> Forall (okn env) (prim_ins p) ->
  exists l e, prim_assigns p = [(l, e)] /\
              ltarget env l = Some (fst (prim_out p), 0, snd (prim_out p)) /\
              lnet l = fst (prim_out p) /\
              assign_value env l e = prim_fn p (map (getv env) (map fst (prim_ins p))).
Proof. exact prim_sound. Qed.

(* 2. kernel level, ARBITRARY leaf functions: evaluating the leaves of a netlist once more in ANY order (cs_t) moves a valuation
      that already agrees with propagateAll's result on the first k leaves of the simulator's order (cs_k) to one that agrees
      on the first k+1; hence n passes in any order reach propagateAll's valuation *)
Theorem C01_any_order_pass : forall (St : Type) (d : SimKernel.design St) cs_k, ordered cs_k -> single_driver cs_k ->
  (forall c, In c cs_k -> definite c) ->
  forall vs0 cs_t, incl cs_t cs_k -> incl cs_k cs_t ->
  forall k vs, agree d cs_k vs0 k vs -> agree d cs_k vs0 (S k) (fold_left (propagate1 d) cs_t vs).
Proof. exact (@agree_pass). Qed.
Theorem C01_any_order_limit : forall (St : Type) (d : SimKernel.design St) cs_k vs0 vs,
  agree d cs_k vs0 (length cs_k) vs -> vs = fold_left (propagate1 d) cs_k vs0.
Proof. exact (@agree_all). Qed.

(* 3. combinational composition: whatever order the assigns appear in the text, IF VSem's settle loop reports a fixpoint
      (for any fuel), that fixpoint is exactly what Simulator.propagateAll computes over the leaves *)
Theorem C01_comb_compose : forall (St : Type) f ps,
  match_comb ps f = true -> forallb prim_wf ps = true -> ordered (map prim_leaf ps) ->
  forall env0, env_ok f env0 ->
  forall fuel env', VSem.settle f fuel env0 = (env', true) -> env' = propagateAll (comb_design St f ps) env0.
Proof. exact comb_compose. Qed.

(* ... and it DOES report one within the fuel VSem uses (so the theorem above is not vacuous, and `unstable` is never observed) *)
Theorem C01_comb_settles : forall (St : Type) f ps,
  match_comb ps f = true -> forallb prim_wf ps = true -> ordered (map prim_leaf ps) ->
  forall env0, env_ok f env0 ->
  VSem.settle f (settle_fuel f) env0 = (propagateAll (comb_design St f ps) env0, true).
Proof. exact comb_settles. Qed.

(* the decidable check implies all three hypotheses *)
Theorem C01_match_flat_comb_sound : forall (St : Type) f ps, match_flat_comb ps f = true ->
  forall env0, env_ok f env0 ->
  VSem.settle f (settle_fuel f) env0 = (propagateAll (comb_design St f ps) env0, true).
Proof. exact match_flat_comb_sound. Qed.

(* 4. sequential composition, one simulator step (set inputs, settle, then n times: posedge processes, NBAs, settle) against
      the kernel's (pokes, clk n): the relation is preserved and every settle reaches its fixpoint *)
Theorem C01_cycle_compose : forall f ps gs clk ins, match_flat ps gs clk ins f = true ->
  forall env s pk n, sim_rel f gs env s -> (forall p, In p pk -> In (fst p) ins) ->
  exists env', vstep f (Some clk) env pk n = (env', true) /\
               sim_rel f gs env' (do_step (comp_design f ps gs) s (pk, n)).
Proof. exact step_under_match. Qed.

(* power-up: `reg rq = reset_value` against Reg.__init__ (value := reset_value, q.put(reset_value)) *)
Theorem C01_powerup_compose : forall f ps gs clk ins, match_flat ps gs clk ins f = true ->
  exists e1, VSem.settle f (settle_fuel f) (power_up f) = (e1, true) /\
             sim_rel f gs e1 (init_poked (comp_design f ps gs) (reg_st0 gs) (reg_pokes gs)).
Proof. exact power_up_rel. Qed.

(* every stimulus that pokes only the listed input nets, every observed net other than an rq: equal traces *)
Theorem C01_stream_compose : forall f ps gs clk ins, match_flat ps gs clk ins f = true ->
  forall obs, (forall o, In o obs -> ~ In o (map (fun g => fst (rg_rq g)) gs)) ->
  forall steps env s, sim_rel f gs env s -> legal_steps f ins steps ->
  vrun f (Some clk) env true steps obs =
  (map (fun s' => map (rd (vals s')) obs) (tl (run_states (comp_design f ps gs) s (map (kstep f) steps))), true).
Proof. exact stream_under_match. Qed.

(* 5. end to end: what the check EXECUTES (VSem.vsim on the elaborated text) equals the kernel run from power-up,
      for EVERY stimulus, given only the decidable per-design check *)
Theorem C01_vsim_compose : forall f ps gs clk ins, match_flat ps gs clk ins f = true ->
  forall clkname steps outs,
  net_index (f_nets f) clkname 0 = Some clk ->
  (forall o, In o (resolve_names f outs) -> ~ In o (map (fun g => fst (rg_rq g)) gs)) ->
  legal_steps f ins steps ->
  vsim f clkname steps outs =
  (map (fun s => map (rd (vals s)) (resolve_names f outs))
       (run_states (comp_design f ps gs) (init_poked (comp_design f ps gs) (reg_st0 gs) (reg_pokes gs)) (map (kstep f) steps)), true).
Proof. exact vsim_compose. Qed.

(* designs without registers: the emitted top module has no clock port and VSem.vsim runs without a clock *)
Theorem C01_vsim_compose_noclock : forall f ps gs clk ins, match_flat ps gs clk ins f = true -> gs = [] ->
  forall clkname steps outs,
  net_index (f_nets f) clkname 0 = None ->
  legal_steps f ins steps ->
  vsim f clkname steps outs =
  (map (fun s => map (rd (vals s)) (resolve_names f outs))
       (run_states (comp_design f ps gs) (init_poked (comp_design f ps gs) (reg_st0 gs) (reg_pokes gs)) (map (kstep f) steps)), true).
Proof. exact vsim_compose_noclock. Qed.

(* 6. multi-output leaves (BitsLSBF / BitsMSBF): the kernel design lists the block as ONE leaf writing all its wires
      (`comp_design_items`); the check `match_items` is `match_flat` on the single-output projections plus "the block does not read its
      own outputs, one listed wire per bit".  Evaluating the merged leaf is evaluating its projections in order: *)
Theorem C01_bits_leaf_split : forall (St : Type) (d : SimKernel.design St) msb a bits vs, item_ok (IBits msb a bits) = true ->
  fold_left (propagate1 d) (map prim_leaf (item_prims (IBits msb a bits))) vs = propagate1 d vs (item_leaf (IBits msb a bits)).
Proof. exact (@bits_split). Qed.
(* ... so the end-to-end statements hold for the design with the merged leaves (what netlist.Dump / the live simulator have) *)
Theorem C01_vsim_compose_items : forall f items gs clk ins, match_items items gs clk ins f = true ->
  forall clkname steps outs,
  net_index (f_nets f) clkname 0 = Some clk ->
  (forall o, In o (resolve_names f outs) -> ~ In o (map (fun g => fst (rg_rq g)) gs)) ->
  legal_steps f ins steps ->
  vsim f clkname steps outs =
  (map (fun s => map (rd (vals s)) (resolve_names f outs))
       (run_states (comp_design_items f items gs) (init_poked (comp_design_items f items gs) (reg_st0 gs) (reg_pokes gs)) (map (kstep f) steps)), true).
Proof. exact vsim_compose_items. Qed.
Theorem C01_vsim_compose_items_noclock : forall f items gs clk ins, match_items items gs clk ins f = true ->
  forall clkname steps outs, gs = [] ->
  net_index (f_nets f) clkname 0 = None ->
  legal_steps f ins steps ->
  vsim f clkname steps outs =
  (map (fun s => map (rd (vals s)) (resolve_names f outs))
       (run_states (comp_design_items f items gs) (init_poked (comp_design_items f items gs) (reg_st0 gs) (reg_pokes gs)) (map (kstep f) steps)), true).
Proof. exact vsim_compose_items_noclock. Qed.

(* 7. Div / Mod: the leaf of PDiv / PMod fixes the simulator's random result for a ZERO divisor (to VSem's a/0 = 0, a%0 = a), so text and
      leaf agree on every environment; for a non-zero divisor it is the regenerated propagate() whatever `rnd` is.  Rows of a run in
      which a divisor net (`div_nets`) is zero are outside the property's claim (decided per stimulus by the check). *)
Theorem C01_div_rnd_irrelevant : forall w rnd a b, b <> 0 ->
  Div_propagate w rnd a b = Div_propagate w 0 a b /\ Mod_propagate w rnd a b = Mod_propagate w 0 a b.
Proof. exact div_rnd_irrelevant. Qed.

(* ---------------------------------------------------------------- non-vacuity: the hypotheses hold on concrete designs
   (definitions and computations in Proofs/C01/ComposeExamples.v) *)
(* two assigns in the text in REVERSE dependency order:  r = t | c;  t = a & b;  the check passes, the loop needs a second pass *)
Example C01_comb_nonvacuous :
  match_flat_comb ex_comb_ps ex_comb = true /\ env_ok ex_comb [12; 10; 1; 0; 0] /\
  VSem.settle ex_comb (settle_fuel ex_comb) [12; 10; 1; 0; 0] = ([12; 10; 1; 8; 9], true) /\
  propagateAll (comb_design unit ex_comb ex_comb_ps) [12; 10; 1; 0; 0] = [12; 10; 1; 8; 9] /\
  fst (VSem.settle ex_comb 1 [12; 10; 1; 0; 0]) <> [12; 10; 1; 8; 9].
Proof. exact ex_comb_ok. Qed.
(* a register (reset value 3) fed by an And2:  q = rq;  t = a & b;  always @(posedge clk) rq <= t; *)
Example C01_seq_nonvacuous :
  match_flat ex_seq_ps ex_seq_gs 2 [0%nat; 1%nat] ex_seq = true /\
  net_index (f_nets ex_seq) "clk"%string 0 = Some 2%nat /\ legal_steps ex_seq [0%nat; 1%nat] ex_steps /\
  vsim ex_seq "clk"%string ex_steps ["q"%string] = ([[3]; [8]; [2]], true).
Proof. exact ex_seq_ok. Qed.

Print Assumptions C01_prim_sound.
Print Assumptions C01_any_order_pass.
Print Assumptions C01_any_order_limit.
Print Assumptions C01_comb_compose.
Print Assumptions C01_comb_settles.
Print Assumptions C01_match_flat_comb_sound.
Print Assumptions C01_cycle_compose.
Print Assumptions C01_powerup_compose.
Print Assumptions C01_stream_compose.
Print Assumptions C01_vsim_compose.
Print Assumptions C01_vsim_compose_noclock.
Print Assumptions C01_bits_leaf_split.
Print Assumptions C01_vsim_compose_items.
Print Assumptions C01_vsim_compose_items_noclock.
Print Assumptions C01_div_rnd_irrelevant.
