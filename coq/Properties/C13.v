(* C13 — single-precision floating-point blocks meet IEEE-754 within stated error bounds.
   Statements only; proofs in Proofs/C13/*.v.  Model: Model/Fp.v (word-level datapath of FPComparator_SP, FPAdder_SP,
   FPMult_SP, InttoFP_SP, FPtoInt_SP with the real wire widths).  Meaning of the claims: Spec/C13.v.
   Values are scaled integers: sval a = val a * 2^150 with val a = (-1)^s (2^23+m) 2^(e-150)   (Qval_sval).

   Two widths of the model are parameters that the check (py/props/c13.py) reads off the LIVE circuit on every run and
   then ties the real block to that instance: ew = width of FPAdder_SP's `ediff` wire (fpadd_w ew) and the upper bound of
   FPtoInt_SP's p_lost range (fp2int_gen hi).  fpadd = fpadd_w 8 and fp2int = fp2int_gen 31 are the current /repo.  The
   full-strength theorems below hold for ew >= 8 and hi = 31; if the probe selects anything else they do not apply, the
   check reports the obligation as broken and searches for the failing operand. *)
From V Require Import Base.Bits Spec.C13 Model.Fp.
From V Require Import Proofs.C13.Cmp Proofs.C13.Mul Proofs.C13.I2F Proofs.C13.F2I Proofs.C13.AddComm Proofs.C13.AddBound
                      Proofs.C13.AddRefute Proofs.C13.QBridge.
From V Require Import Gen.Prims Model.StructArith Model.StructLogic Proofs.C13.Blocks.
From Coq Require Import QArith.
Open Scope Z_scope.

(* the scaled integer is the rational value of the property text times 2^150 *)
Theorem Qval_sval : forall a, (Qval a == inject_Z (sval a) / inject_Z (2 ^ 150))%Q.
Proof. exact QBridge.Qval_sval. Qed.

(* ---- comparator: gt / eq / lt order normal operands exactly as their values (plain) or magnitudes (absolute mode) *)
Theorem fpcmp_exact : forall absolute a b, normal a -> normal b -> fpcmp absolute a b = cmp_spec absolute a b.
Proof. exact fpcmp_exact_lemma. Qed.

(* ---- integer -> float, EVERY 32-bit pattern: truncation toward zero to 24 significant bits; p_lost <-> bits discarded *)
Theorem int2fp_trunc : forall a, word a -> int2fp_spec a (fst (int2fp a)) (snd (int2fp a)).
Proof. exact int2fp_trunc_lemma. Qed.

(* the specification function keeps the 24 leading bits of n and clears the rest (so the spec above is not vacuous) *)
Theorem trunc_sig24_meaning : forall n, 0 < n ->
  let sh := Z.max 0 (Z.log2 n - 23) in let q := n / 2 ^ sh in
  trunc_sig24 n = q * 2 ^ sh /\ 0 < q < 2 ^ 24 /\ (0 < sh -> 2 ^ 23 <= q) /\
  trunc_sig24 n <= n < trunc_sig24 n + 2 ^ sh.
Proof. exact trunc_sig24_spec. Qed.

(* ---- float -> integer, |v| < 2^31: the two's complement result is the value truncated toward zero; not invalid, not denorm *)
Theorem fp2int_trunc : forall a r pl dn inv, normal a -> fp2int a = (r, pl, dn, inv) -> fp2int_in_range a ->
  word r /\ sgn 32 r = fp2int_value a /\ inv = false /\ dn = false.
Proof. exact fp2int_trunc_lemma. Qed.

(* invalid exactly for |v| >= 2^31 *)
Theorem fp2int_invalid : forall a r pl dn inv, normal a -> fp2int a = (r, pl, dn, inv) ->
  (inv = true <-> ~ fp2int_in_range a).
Proof. exact fp2int_invalid_lemma. Qed.

(* precision lost exactly when the truncation discarded something *)
Theorem fp2int_plost : forall a r pl dn inv, normal a -> fp2int a = (r, pl, dn, inv) -> fp2int_in_range a ->
  (pl = true <-> fp2int_discarded a).
Proof. exact fp2int_plost_lemma. Qed.

(* ---- multiplier: exact product normal -> normal result within 1 ulp (of the result) of the exact product *)
Theorem fpmul_ulp : forall a b, normal a -> normal b -> mul_exact_normal a b -> mul_spec a b (fpmul a b).
Proof. exact fpmul_ulp_lemma. Qed.

Theorem fpmul_comm : forall a b, fpmul a b = fpmul b a.
Proof. exact fpmul_comm_lemma. Qed.

(* ---- adder, EVERY pair of normal operands whatever the exponent gap: exact sum normal -> normal result with the sign
   of the exact sum, within 2 ulp of the larger operand *)
Theorem fpadd_bound : forall a b, normal a -> normal b -> add_exact_normal a b -> add_spec a b (fpadd a b).
Proof. exact fpadd_bound_lemma. Qed.

(* the same for every ediff width the probe may select from 8 bits up (gaps between normal exponent fields are <= 253) *)
Theorem fpadd_w_bound : forall ew a b, 8 <= ew -> normal a -> normal b -> add_exact_normal a b -> add_spec a b (fpadd_w ew a b).
Proof. exact fpadd_w_total_lemma. Qed.

(* and why the width matters: an ew-bit ediff wire is exact for exponent gaps below 2^ew *)
Theorem fpadd_w_gap_bound : forall ew a b, 0 <= ew -> normal a -> normal b -> Z.abs (expo a - expo b) < 2 ^ ew ->
  add_exact_normal a b -> add_spec a b (fpadd_w ew a b).
Proof. exact fpadd_w_gap_lemma. Qed.

(* commutative (the swap stage canonicalises the operand order); x + (-x), whose exact result 0 is not normal, is the
   only excluded case: there the sign of the result follows the first operand *)
Theorem fpadd_comm : forall a b, word a -> word b -> sval a + sval b <> 0 -> fpadd a b = fpadd b a.
Proof. exact fpadd_comm_lemma. Qed.

(* ---- sub-block bridge (session 5): the word operators of Model/Fp.v ARE the structural block models of C07 / C08
   (Model/StructArith.v, Model/StructLogic.v: the regenerated primitives wired as the constructors do), for every width and
   every in-range value.  Side conditions: widths >= 0 (>= 1 for a shift-amount / comparator / clz operand width), operands
   inside their wire widths, clz result width >= ceil(log2 aw).  Add is the block with the default carry-in (ci = None);
   Sub is the primitive Sub_propagate (C07_sub); `sub_w w 0 a` is Neg; the shifter's stages run on the operand width wa and
   the result is cut to wr (`trunc wr (shr_w wa ..)` is FPtoInt_SP's 56 -> 64 form, the second shr conjunct is wr = wa). *)
Theorem C13_word_ops_are_C07_blocks :
  (forall w a b, 0 <= w -> add_w w a b = m_Add w None a b) /\
  (forall w a b, 0 <= w -> sub_w w a b = Sub_propagate w a b) /\
  (forall w a, 0 <= w -> sub_w w 0 a = m_Neg w a) /\
  (forall wa wb wr a n, 0 <= wa -> 1 <= wb -> 0 <= wr -> 0 <= a < 2 ^ wa -> 0 <= n < 2 ^ wb ->
     trunc wr (shr_w wa a n) = m_ShiftRight ALogical wa wb wr a n) /\
  (forall w wb a n, 0 <= w -> 1 <= wb -> 0 <= a < 2 ^ w -> 0 <= n < 2 ^ wb ->
     shr_w w a n = m_ShiftRight ALogical w wb w a n) /\
  (forall wa wb wr a n, 0 <= wa -> 1 <= wb -> 0 <= wr -> 0 <= a < 2 ^ wa -> 0 <= n < 2 ^ wb ->
     shl_w wr a n = m_ShiftLeft wa wb wr a n) /\
  (forall aw rw a, 1 <= aw -> Z.log2_up aw <= rw -> 0 <= a < 2 ^ aw ->
     clz_w aw rw a = fst (m_CountLeadingZeros aw rw a)).
Proof. exact word_ops_are_C07_blocks. Qed.

(* the comparator (three 1-bit outputs gt, eq, lt; Fp.v keeps 1-bit wires as bool), Range, Bit, Mux2 and the 1+8+23 concatenation *)
Theorem C13_word_ops_are_C08_blocks :
  (forall w a b, 1 <= w -> 0 <= a < 2 ^ w -> 0 <= b < 2 ^ w ->
     Comparator_m w a b = (b2z (fst (fst (cmp_w w a b))), b2z (snd (fst (cmp_w w a b))), b2z (snd (cmp_w w a b)))) /\
  (forall hi lo a, 0 <= lo <= hi -> rng hi lo a = Range_m (hi - lo + 1) hi lo a) /\
  (forall a i, 0 <= i -> b2z (Z.testbit a i) = Bit_m 1 i a) /\
  (forall w sel s0 s1, 0 <= w -> trunc w (mux2 sel s0 s1) = Mux2_m w (b2z sel) s0 s1) /\
  (forall s e m, 0 <= e < 2 ^ 8 -> 0 <= m < 2 ^ 23 ->
     cat_sem s e m = ConcatenateMSBF_m 32 [(1, b2z s); (8, e); (23, m)]).
Proof. exact word_ops_are_C08_blocks. Qed.

(* ---- non-vacuity: concrete operands satisfy the hypotheses, and the conclusions are the expected bit patterns *)
Example fpcmp_nonvacuous :   (* -2.25 < 1.5 ;  |-2.25| > |1.5| *)
  normal 3222274048 /\ normal 1069547520 /\ fpcmp false 3222274048 1069547520 = (false, false, true)
  /\ fpcmp true 3222274048 1069547520 = (true, false, false).
Proof. unfold normal, word. vm_compute. intuition discriminate. Qed.
Example int2fp_nonvacuous :  (* 2^24 + 1 -> 2^24 with p_lost;  -3 -> -3.0 exactly *)
  int2fp 16777217 = (1266679808, true) /\ int2fp 4294967293 = (3225419776, false).
Proof. vm_compute. split; reflexivity. Qed.
Example fp2int_nonvacuous :  (* -2.5 -> -2 with p_lost;  3.0 -> 3 without;  2^31 -> invalid *)
  normal 3223322624 /\ fp2int_in_range 3223322624 /\ fp2int 3223322624 = (4294967294, true, false, false) /\
  normal 1077936128 /\ fp2int_in_range 1077936128 /\ fp2int 1077936128 = (3, false, false, false) /\
  normal 1325400064 /\ ~ fp2int_in_range 1325400064 /\ snd (fp2int 1325400064) = true.
Proof. unfold normal, word, fp2int_in_range. vm_compute. intuition discriminate. Qed.
Example fpmul_nonvacuous :   (* 1.5 * -2.25 = -3.375 exactly *)
  normal 1069547520 /\ normal 3222274048 /\ mul_exact_normal 1069547520 3222274048 /\ fpmul 1069547520 3222274048 = 3226992640.
Proof. unfold normal, word, mul_exact_normal, normal_range. vm_compute. intuition discriminate. Qed.
Example fpadd_nonvacuous :   (* 1.5 + -2.25 = -0.75 exactly (cancellation, sign of the larger operand);  2^40 + 2^8 (gap 32) = 2^40 *)
  normal 1069547520 /\ normal 3222274048 /\ add_exact_normal 1069547520 3222274048 /\ fpadd 1069547520 3222274048 = 3208642560 /\
  normal 1400897536 /\ normal 1132462080 /\ add_exact_normal 1400897536 1132462080 /\ fpadd 1400897536 1132462080 = 1400897536.
Proof. unfold normal, word, add_exact_normal, normal_range. vm_compute. intuition discriminate. Qed.

Example word_ops_nonvacuous :   (* the instances of FPAdder_SP / InttoFP_SP / FPtoInt_SP / FPComparator_SP, on operands inside the widths *)
  add_w 25 16777215 12582912 = 29360127 /\ m_Add 25 None 16777215 12582912 = 29360127 /\
  sub_w 8 3 130 = 129 /\ Sub_propagate 8 3 130 = 129 /\ m_Neg 32 5 = 4294967291 /\ sub_w 32 0 5 = 4294967291 /\
  shr_w 24 12582912 200 = 0 /\ m_ShiftRight ALogical 24 8 24 12582912 200 = 0 /\
  shr_w 24 12582912 3 = 1572864 /\ m_ShiftRight ALogical 24 8 24 12582912 3 = 1572864 /\
  trunc 64 (shr_w 56 (Z.shiftl 12582912 32) 9) = 105553116266496 /\ m_ShiftRight ALogical 56 8 64 (Z.shiftl 12582912 32) 9 = 105553116266496 /\
  shl_w 25 5 22 = 20971520 /\ m_ShiftLeft 25 5 25 5 22 = 20971520 /\
  shl_w 64 (Z.shiftl 12582912 32) 7 = 6917529027641081856 /\ m_ShiftLeft 56 8 64 (Z.shiftl 12582912 32) 7 = 6917529027641081856 /\
  clz_w 25 5 5 = 22 /\ fst (m_CountLeadingZeros 25 5 5) = 22 /\ clz_w 32 5 0 = 0 /\ fst (m_CountLeadingZeros 32 5 0) = 0 /\
  Z.log2_up 25 <= 5 /\ Z.log2_up 32 <= 5 /\
  cmp_w 8 130 127 = (true, false, false) /\ Comparator_m 8 130 127 = (1, 0, 0) /\
  rng 30 23 1069547520 = 127 /\ Range_m 8 30 23 1069547520 = 127 /\
  cat_sem true 127 4194304 = 3217031168 /\ ConcatenateMSBF_m 32 [(1, 1); (8, 127); (23, 4194304)] = 3217031168.
Proof. vm_compute. repeat split; try reflexivity; discriminate. Qed.

(* ---- history: the two instances that /repo had before its repairs (explicitly the OLD widths, not the current circuit).
   They are what the check falls back to describing if the probe ever selects those widths again. *)
(* before 150f909 the ediff wire had 5 bits: gap 32, 2^40 + 2^8 returned 2^41 *)
Example fpadd_before_repair_150f909 :
  exists a b, normal a /\ normal b /\ add_exact_normal a b /\ (expo a - expo b) mod 32 <> expo a - expo b /\
              fpadd_w 5 a b = 1409286144 /\ ~ add_spec a b (fpadd_w 5 a b).
Proof. exact fpadd_5bit_refuted_lemma. Qed.
(* before 48843fa p_lost tested Range(shifted, 32, 0): it fired exactly on (loss or odd integer result), e.g. on 1.0 *)
Example fp2int_plost_before_repair_48843fa_char : forall a r pl dn inv,
  normal a -> fp2int_gen 32 a = (r, pl, dn, inv) -> fp2int_in_range a ->
  (pl = true <-> (fp2int_discarded a \/ Z.odd (fp2int_value a) = true)).
Proof. exact fp2int_32_plost_char. Qed.
Example fp2int_plost_before_repair_48843fa :
  exists a, normal a /\ fp2int_in_range a /\ ~ fp2int_discarded a /\ fp2int_gen 32 a = (1, true, false, false)
            /\ fp2int a = (1, false, false, false).
Proof. exact fp2int_32_plost_refuted_lemma. Qed.

Print Assumptions Qval_sval.
Print Assumptions fpcmp_exact.
Print Assumptions int2fp_trunc.
Print Assumptions trunc_sig24_meaning.
Print Assumptions fp2int_trunc.
Print Assumptions fp2int_invalid.
Print Assumptions fp2int_plost.
Print Assumptions fpmul_ulp.
Print Assumptions fpmul_comm.
Print Assumptions fpadd_bound.
Print Assumptions fpadd_w_bound.
Print Assumptions fpadd_w_gap_bound.
Print Assumptions fpadd_comm.
Print Assumptions C13_word_ops_are_C07_blocks.
Print Assumptions C13_word_ops_are_C08_blocks.
