(* C13 — single-precision floating-point blocks meet IEEE-754 within stated error bounds.
   Statements only; proofs in Proofs/C13/*.v.  Model: Model/Fp.v (word-level datapath of FPComparator_SP, FPAdder_SP,
   FPMult_SP, InttoFP_SP, FPtoInt_SP with the real wire widths).  Meaning of the claims: Spec/C13.v.
   Values are scaled integers: sval a = val a * 2^150 with val a = (-1)^s (2^23+m) 2^(e-150)   (Qval_sval).

   Two widths of the model are parameters that the check (py/props/c13.py) reads off the LIVE circuit on every run and
   then ties the real block to that instance: ew = width of FPAdder_SP's `ediff` wire (fpadd_w ew) and the upper bound of
   FPtoInt_SP's p_lost range (fp2int_gen hi).  fpadd = fpadd_w 8 and fp2int = fp2int_gen 31 are the current /repo.  The
   full-strength theorems below hold for ew >= 8 and hi = 31; if the probe selects anything else they do not apply, the
   check reports the obligation as broken and searches for the failing operand. *)
From V Require Import Base.Bits Spec.C13 Model.Fp.
From V Require Import Proofs.C13.Cmp Proofs.C13.Mul Proofs.C13.I2F Proofs.C13.F2I Proofs.C13.AddComm Proofs.C13.AddBound
                      Proofs.C13.AddRefute Proofs.C13.QBridge.
From Coq Require Import QArith.
Open Scope Z_scope.

(* the scaled integer is the rational value of the property text times 2^150 *)
Theorem Qval_sval : forall a, (Qval a == inject_Z (sval a) / inject_Z (2 ^ 150))%Q.
Proof. exact QBridge.Qval_sval. Qed.

(* ---- comparator: gt / eq / lt order normal operands exactly as their values (plain) or magnitudes (absolute mode) *)
Theorem fpcmp_exact : forall absolute a b, normal a -> normal b -> fpcmp absolute a b = cmp_spec absolute a b.
Proof. exact fpcmp_exact_lemma. Qed.

(* ---- integer -> float, EVERY 32-bit pattern: truncation toward zero to 24 significant bits; p_lost <-> bits discarded *)
Theorem int2fp_trunc : forall a, word a -> int2fp_spec a (fst (int2fp a)) (snd (int2fp a)).
Proof. exact int2fp_trunc_lemma. Qed.

(* the specification function keeps the 24 leading bits of n and clears the rest (so the spec above is not vacuous) *)
Theorem trunc_sig24_meaning : forall n, 0 < n ->
  let sh := Z.max 0 (Z.log2 n - 23) in let q := n / 2 ^ sh in
  trunc_sig24 n = q * 2 ^ sh /\ 0 < q < 2 ^ 24 /\ (0 < sh -> 2 ^ 23 <= q) /\
  trunc_sig24 n <= n < trunc_sig24 n + 2 ^ sh.
Proof. exact trunc_sig24_spec. Qed.

(* ---- float -> integer, |v| < 2^31: the two's complement result is the value truncated toward zero; not invalid, not denorm *)
Theorem fp2int_trunc : forall a r pl dn inv, normal a -> fp2int a = (r, pl, dn, inv) -> fp2int_in_range a ->
  word r /\ sgn 32 r = fp2int_value a /\ inv = false /\ dn = false.
Proof. exact fp2int_trunc_lemma. Qed.

(* invalid exactly for |v| >= 2^31 *)
Theorem fp2int_invalid : forall a r pl dn inv, normal a -> fp2int a = (r, pl, dn, inv) ->
  (inv = true <-> ~ fp2int_in_range a).
Proof. exact fp2int_invalid_lemma. Qed.

(* precision lost exactly when the truncation discarded something *)
Theorem fp2int_plost : forall a r pl dn inv, normal a -> fp2int a = (r, pl, dn, inv) -> fp2int_in_range a ->
  (pl = true <-> fp2int_discarded a).
Proof. exact fp2int_plost_lemma. Qed.

(* ---- multiplier: exact product normal -> normal result within 1 ulp (of the result) of the exact product *)
Theorem fpmul_ulp : forall a b, normal a -> normal b -> mul_exact_normal a b -> mul_spec a b (fpmul a b).
Proof. exact fpmul_ulp_lemma. Qed.

Theorem fpmul_comm : forall a b, fpmul a b = fpmul b a.
Proof. exact fpmul_comm_lemma. Qed.

(* ---- adder, EVERY pair of normal operands whatever the exponent gap: exact sum normal -> normal result with the sign
   of the exact sum, within 2 ulp of the larger operand *)
Theorem fpadd_bound : forall a b, normal a -> normal b -> add_exact_normal a b -> add_spec a b (fpadd a b).
Proof. exact fpadd_bound_lemma. Qed.

(* the same for every ediff width the probe may select from 8 bits up (gaps between normal exponent fields are <= 253) *)
Theorem fpadd_w_bound : forall ew a b, 8 <= ew -> normal a -> normal b -> add_exact_normal a b -> add_spec a b (fpadd_w ew a b).
Proof. exact fpadd_w_total_lemma. Qed.

(* and why the width matters: an ew-bit ediff wire is exact for exponent gaps below 2^ew *)
Theorem fpadd_w_gap_bound : forall ew a b, 0 <= ew -> normal a -> normal b -> Z.abs (expo a - expo b) < 2 ^ ew ->
  add_exact_normal a b -> add_spec a b (fpadd_w ew a b).
Proof. exact fpadd_w_gap_lemma. Qed.

(* commutative (the swap stage canonicalises the operand order); x + (-x), whose exact result 0 is not normal, is the
   only excluded case: there the sign of the result follows the first operand *)
Theorem fpadd_comm : forall a b, word a -> word b -> sval a + sval b <> 0 -> fpadd a b = fpadd b a.
Proof. exact fpadd_comm_lemma. Qed.

(* ---- non-vacuity: concrete operands satisfy the hypotheses, and the conclusions are the expected bit patterns *)
Example fpcmp_nonvacuous :   (* -2.25 < 1.5 ;  |-2.25| > |1.5| *)
  normal 3222274048 /\ normal 1069547520 /\ fpcmp false 3222274048 1069547520 = (false, false, true)
  /\ fpcmp true 3222274048 1069547520 = (true, false, false).
Proof. unfold normal, word. vm_compute. intuition discriminate. Qed.
Example int2fp_nonvacuous :  (* 2^24 + 1 -> 2^24 with p_lost;  -3 -> -3.0 exactly *)
  int2fp 16777217 = (1266679808, true) /\ int2fp 4294967293 = (3225419776, false).
Proof. vm_compute. split; reflexivity. Qed.
Example fp2int_nonvacuous :  (* -2.5 -> -2 with p_lost;  3.0 -> 3 without;  2^31 -> invalid *)
  normal 3223322624 /\ fp2int_in_range 3223322624 /\ fp2int 3223322624 = (4294967294, true, false, false) /\
  normal 1077936128 /\ fp2int_in_range 1077936128 /\ fp2int 1077936128 = (3, false, false, false) /\
  normal 1325400064 /\ ~ fp2int_in_range 1325400064 /\ snd (fp2int 1325400064) = true.
Proof. unfold normal, word, fp2int_in_range. vm_compute. intuition discriminate. Qed.
Example fpmul_nonvacuous :   (* 1.5 * -2.25 = -3.375 exactly *)
  normal 1069547520 /\ normal 3222274048 /\ mul_exact_normal 1069547520 3222274048 /\ fpmul 1069547520 3222274048 = 3226992640.
Proof. unfold normal, word, mul_exact_normal, normal_range. vm_compute. intuition discriminate. Qed.
Example fpadd_nonvacuous :   (* 1.5 + -2.25 = -0.75 exactly (cancellation, sign of the larger operand);  2^40 + 2^8 (gap 32) = 2^40 *)
  normal 1069547520 /\ normal 3222274048 /\ add_exact_normal 1069547520 3222274048 /\ fpadd 1069547520 3222274048 = 3208642560 /\
  normal 1400897536 /\ normal 1132462080 /\ add_exact_normal 1400897536 1132462080 /\ fpadd 1400897536 1132462080 = 1400897536.
Proof. unfold normal, word, add_exact_normal, normal_range. vm_compute. intuition discriminate. Qed.

(* ---- history: the two instances that /repo had before its repairs (explicitly the OLD widths, not the current circuit).
   They are what the check falls back to describing if the probe ever selects those widths again. *)
(* before 150f909 the ediff wire had 5 bits: gap 32, 2^40 + 2^8 returned 2^41 *)
Example fpadd_before_repair_150f909 :
  exists a b, normal a /\ normal b /\ add_exact_normal a b /\ (expo a - expo b) mod 32 <> expo a - expo b /\
              fpadd_w 5 a b = 1409286144 /\ ~ add_spec a b (fpadd_w 5 a b).
Proof. exact fpadd_5bit_refuted_lemma. Qed.
(* before 48843fa p_lost tested Range(shifted, 32, 0): it fired exactly on (loss or odd integer result), e.g. on 1.0 *)
Example fp2int_plost_before_repair_48843fa_char : forall a r pl dn inv,
  normal a -> fp2int_gen 32 a = (r, pl, dn, inv) -> fp2int_in_range a ->
  (pl = true <-> (fp2int_discarded a \/ Z.odd (fp2int_value a) = true)).
Proof. exact fp2int_32_plost_char. Qed.
Example fp2int_plost_before_repair_48843fa :
  exists a, normal a /\ fp2int_in_range a /\ ~ fp2int_discarded a /\ fp2int_gen 32 a = (1, true, false, false)
            /\ fp2int a = (1, false, false, false).
Proof. exact fp2int_32_plost_refuted_lemma. Qed.

Print Assumptions Qval_sval.
Print Assumptions fpcmp_exact.
Print Assumptions int2fp_trunc.
Print Assumptions trunc_sig24_meaning.
Print Assumptions fp2int_trunc.
Print Assumptions fp2int_invalid.
Print Assumptions fp2int_plost.
Print Assumptions fpmul_ulp.
Print Assumptions fpmul_comm.
Print Assumptions fpadd_bound.
Print Assumptions fpadd_w_bound.
Print Assumptions fpadd_w_gap_bound.
Print Assumptions fpadd_comm.
