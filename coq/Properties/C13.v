(* C13 — single-precision floating-point blocks meet IEEE-754 within stated error bounds.
   Statements only; proofs in Proofs/C13/*.v; the model is Model/Fp.v (word-level datapath with the real wire widths),
   the meaning of the claims is Spec/C13.v (scaled integers: sval a = val a * 2^150). *)
From V Require Import Base.Bits Spec.C13 Model.Fp Proofs.C13.Cmp.

(* comparator: gt / eq / lt order normal operands exactly as their values (plain) or magnitudes (absolute mode) *)
Theorem fpcmp_exact : forall absolute a b, normal a -> normal b -> fpcmp absolute a b = cmp_spec absolute a b.
Proof. exact fpcmp_exact_lemma. Qed.

Print Assumptions fpcmp_exact.
