(* C03 — stub while the proofs are being written *)
From V Require Import Model.VSyntax Model.VWf Spec.C03.
