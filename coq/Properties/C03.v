(* C03 — emitted Verilog is self-consistent: it parses, resolves and elaborates.
   Statements only; proofs in Proofs/C03/{Sound,Elab,Names}.v.
   The objects: Model/VSyntax.v (abstract syntax produced per text by py/vparse.py), Spec/C03.v (WF: the declarative
   meaning of "closed, legal design"; reserved = IEEE 1364-2005 Annex B), Model/VWf.v (the executable checker run by
   vm_compute on every emitted text), Model/VSem.v (elaborate). *)
From V Require Import Model.VSyntax Model.VSem Spec.C03 Model.VWf Model.Naming Proofs.C03.Sound Proofs.C03.Elab Proofs.C03.Names Proofs.C03.NamesFull Proofs.C03.Examples.
Local Open Scope string_scope.

(* the checker is sound for the specification: whatever text it accepts (with black-box list ext) is a closed, legal
   design: identifiers declared exactly once and not reserved, every use resolves, no select of a scalar, selects inside
   the declared range, widths / replication counts >= 1, l-value kinds, one driver per net bit, every instance bound to
   exactly one definition with matching port names / widths / directions, no instantiation cycle *)
Theorem C03_wf_sound : forall ext d, wf_design ext d = true -> WF ext d.
Proof. exact wf_design_sound. Qed.

(* a well-formed design (no black boxes) in the fragment VSem supports (no negedge, no parameters; memories included)
   elaborates: flattening of EVERY module as top succeeds, for every fuel >= (|d|+1) * (max items per module + 1) *)
Theorem C03_elab_total : forall d, WF [] d -> vsem_fragment d ->
  forall m, In m d -> forall fuel, (elab_fuel d <= fuel)%nat -> exists f, elaborate d fuel (m_name m) = inr f.
Proof. exact elab_total. Qed.

(* ... hence so does every text the checker accepts *)
Theorem C03_elab_checked : forall d, wf_design [] d = true -> vsem_fragment d ->
  forall m, In m d -> forall fuel, (elab_fuel d <= fuel)%nat -> exists f, elaborate d fuel (m_name m) = inr f.
Proof. exact elab_total_checked. Qed.

(* naming (hand model of getWireNames/getPortName/getValidVerilogName, Model/Naming.v, tied to the real functions by the
   check): in a scope whose port names do not start with w_ / reserved_ and are pairwise distinct, whose local wire names
   are pairwise distinct, the emitted names are pairwise distinct and none is a keyword py4hw knows.
   kw_ok: no keyword of py4hw's list starts with `w_` or `reserved_` (checked on the real list by the check).
   PARTIAL: instance names (i_ prefix) and the implicit clock port are not part of the model; "reserved" here is py4hw's
   own list (the model's parameter), not Spec.reserved — `design`/`uwire` are missing from it (known finding). *)
Theorem C03_names_injective_partial : forall (kw : list string) (ports locals : list string),
  kw_ok kw -> NoDup ports -> NoDup locals ->
  (forall p, In p ports -> has_prefix "w_" p = false /\ has_prefix "reserved_" p = false) ->
  NoDup (emitted_names kw ports locals) /\ (forall x, In x (emitted_names kw ports locals) -> ~ In x kw).
Proof. exact names_injective. Qed.

(* without the guard the claim is false: port `w_a` + local wire `a` are emitted under one name *)
Theorem C03_names_refuted : exists kw ports locals, kw_ok kw /\ NoDup ports /\ NoDup locals /\ ~ NoDup (emitted_names kw ports locals).
Proof. exact names_refuted. Qed.

(* naming, the WHOLE name space of a module (Model/Naming.v emitted_names_full: implicit clock port `clk` if the scope has a
   clocked descendant, ports through getPortName, local wires "w_"+n, one instance "i_"+n per non-inlined child), and
   "reserved" = Spec.C03.reserved (IEEE 1364-2005 Annex B), not py4hw's list.  Guards: py4hw's list kw contains the IEEE list
   and none of its entries starts with w_ / i_ / reserved_ (kw_ok_full); port, local-wire and instance names pairwise
   distinct within their class; no PORT name starts with w_ / i_ / reserved_ (local-wire and instance names need no guard:
   they are always prefixed); the clock name starts with none of the prefixes, is not a port name and is not in kw.
   Then the emitted identifiers are pairwise distinct and none is in kw nor in the IEEE list. *)
Theorem C03_names_injective : forall (kw : list string) (clk : option string) (ports locals insts : list string),
  kw_ok_full kw -> incl reserved kw ->
  NoDup ports -> NoDup locals -> NoDup insts ->
  (forall p, In p ports -> no_gen_prefix p) ->
  (forall c, clk = Some c -> no_gen_prefix c /\ ~ In c ports /\ ~ In c kw) ->
  NoDup (emitted_names_full kw clk ports locals insts) /\
  (forall x, In x (emitted_names_full kw clk ports locals insts) -> ~ In x kw /\ ~ In x reserved).
Proof. exact names_injective_full. Qed.

(* each guard is necessary (kw = the IEEE list, every OTHER guard in force):
   port `i_x` + child instance `x` (known finding i-prefix-collision) *)
Theorem C03_names_i_prefix_refuted : exists clk ports locals insts,
  NoDup ports /\ NoDup locals /\ NoDup insts /\
  (forall p, In p ports -> has_prefix "w_" p = false /\ has_prefix "reserved_" p = false) /\
  (forall c, clk = Some c -> no_gen_prefix c /\ ~ In c ports /\ ~ In c reserved) /\
  ~ NoDup (emitted_names_full reserved clk ports locals insts).
Proof. exact names_full_refuted_i_prefix. Qed.

(* a data port named like the implicit clock `clk` (known finding port-named-like-implicit-clock) *)
Theorem C03_names_clock_port_refuted : exists clk ports locals insts,
  NoDup ports /\ NoDup locals /\ NoDup insts /\
  (forall p, In p ports -> no_gen_prefix p) /\
  (forall c, clk = Some c -> no_gen_prefix c /\ ~ In c reserved) /\
  ~ NoDup (emitted_names_full reserved clk ports locals insts).
Proof. exact names_full_refuted_clock_port. Qed.

(* ports `wire` and `reserved_wire` (known finding reserved-prefix-collision) *)
Theorem C03_names_reserved_prefix_refuted : exists clk ports locals insts,
  NoDup ports /\ NoDup locals /\ NoDup insts /\
  (forall p, In p ports -> has_prefix "w_" p = false /\ has_prefix "i_" p = false) /\
  (forall c, clk = Some c -> no_gen_prefix c /\ ~ In c ports /\ ~ In c reserved) /\
  ~ NoDup (emitted_names_full reserved clk ports locals insts).
Proof. exact names_full_refuted_reserved_prefix. Qed.

(* the clock name is guarded too: a clock driver called `w_a` next to a local wire `a` *)
Theorem C03_names_clock_prefix_refuted : exists clk ports locals insts,
  NoDup ports /\ NoDup locals /\ NoDup insts /\
  (forall p, In p ports -> no_gen_prefix p) /\
  (forall c, clk = Some c -> ~ In c ports /\ ~ In c reserved) /\
  ~ NoDup (emitted_names_full reserved clk ports locals insts).
Proof. exact names_full_refuted_clock_prefix. Qed.

(* `incl reserved kw` is necessary for the keyword clause: a list without `uwire` (py4hw before d778f58) emits that port unprefixed *)
Theorem C03_names_kw_incomplete_refuted : exists kw ports,
  kw_ok_full kw /\ NoDup ports /\ (forall p, In p ports -> no_gen_prefix p) /\
  exists x, In x (emitted_names_full kw None ports [] []) /\ In x reserved.
Proof. exact names_full_refuted_kw_incomplete. Qed.

(* ---------------------------------------------------------------- non-vacuity and detection examples (designs in Proofs/C03/Examples.v) *)
Example C03_example_accepted : wf_design [] ex_design = true.
Proof. exact ex_example_accepted. Qed.
Example C03_example_fragment : vsem_fragment ex_design.
Proof. exact ex_example_fragment. Qed.
Example C03_example_elaborates : exists f, elaborate ex_design (elab_fuel ex_design) "Top" = inr f.
Proof. exact ex_example_elaborates. Qed.
Example C03_example_memory_accepted : wf_design [] ex_mem_design = true.
Proof. exact ex_mem_accepted. Qed.
Example C03_example_memory_fragment : vsem_fragment ex_mem_design.
Proof. exact ex_mem_fragment. Qed.
Example C03_example_memory_elaborates : exists f, elaborate ex_mem_design (elab_fuel ex_mem_design) "Mem" = inr f.
Proof. exact ex_mem_elaborates. Qed.
Example C03_rejects_scalar_select :
  wf_report [] (one_module [pin DIn 1 "a"; pin DOut 1 "r"] [IAssign (LId "r") (EBit "a" (ENum 0))]) = [("scalar_select", "M", "a")].
Proof. exact ex_rejects_scalar_select. Qed.
Example C03_rejects_zero_replication :
  wf_design [] (one_module [pin DIn 8 "a"; pin DOut 8 "r"] [IAssign (LId "r") (EConcat (ERepl 0 (EBit "a" (ENum 7))) (EId "a"))]) = false.
Proof. exact ex_rejects_zero_replication. Qed.
Example C03_rejects_duplicate_and_self_driver :
  wf_design [] (one_module [pin DIn 4 "w_a"; pin DOut 4 "r"] [IWire "w_a" 4; IAssign (LId "w_a") (EUn UNot (EId "w_a")); IAssign (LId "r") (EUn UNot (EId "w_a"))]) = false.
Proof. exact ex_rejects_duplicate_and_self_driver. Qed.
Example C03_rejects_two_drivers :
  wf_report [] (one_module [pin DIn 4 "a"; pin DOut 4 "r"] [IAssign (LPart "r" 3 0) (EId "a"); IAssign (LPart "r" 3 3) (ENum 1)])
  = [("multiple_drivers", "M", "r"); ("multiple_drivers", "M", "r")].
Proof. exact ex_rejects_two_drivers. Qed.
Example C03_accepts_disjoint_part_drivers :
  wf_design [] (one_module [pin DIn 4 "a"; pin DOut 4 "r"] [IAssign (LPart "r" 2 0) (EPart "a" 2 0); IAssign (LIdx "r" (ENum 3)) (ENum 1)]) = true.
Proof. exact ex_accepts_disjoint_part_drivers. Qed.
Example C03_rejects_unknown_port :
  wf_report [] [ {| m_name := "T"; m_params := []; m_ports := [pin DIn 1 "clk_g"; pin DIn 8 "d"; pin DOut 8 "q"];
                    m_items := [IInst "Reg8" [] "i_r" [("clk_g", EId "clk_g"); ("d", EId "d"); ("q", EId "q")]] |};
                 nth 1 ex_design {| m_name := ""; m_params := []; m_ports := []; m_items := [] |} ]
  = [("unknown_port", "T", "i_r.clk_g"); ("port_unconnected", "T", "i_r.clk")].
Proof. exact ex_rejects_unknown_port. Qed.
Example C03_rejects_keyword : wf_report [] (one_module [pin DIn 1 "uwire"; pin DOut 1 "r"] [IAssign (LId "r") (EId "uwire")]) = [("reserved_word", "M", "uwire")].
Proof. exact ex_rejects_keyword. Qed.
Example C03_rejects_cycle :
  wf_report [] [ {| m_name := "A"; m_params := []; m_ports := []; m_items := [IInst "B" [] "i_b" []] |};
                 {| m_name := "B"; m_params := []; m_ports := []; m_items := [IInst "A" [] "i_a" []] |} ] = [("instantiation_cycle", "", "")].
Proof. exact ex_rejects_cycle. Qed.
(* the hypotheses of C03_names_injective hold for kw = the IEEE list, clock `clk`, ports a/wire/r/design, local wires t/a/wire,
   instances add/a/wire/t; the emitted identifiers are then the twelve below *)
Example C03_names_injective_guards :
  kw_ok_full reserved /\ incl reserved reserved /\ NoDup ex_ports /\ NoDup ex_locals /\ NoDup ex_insts /\
  (forall p, In p ex_ports -> no_gen_prefix p) /\
  (forall c, Some "clk" = Some c -> no_gen_prefix c /\ ~ In c ex_ports /\ ~ In c reserved).
Proof. exact ex_names_full_guards. Qed.
Example C03_names_injective_value :
  emitted_names_full reserved (Some "clk") ex_ports ex_locals ex_insts =
  ["clk"; "a"; "reserved_wire"; "r"; "reserved_design"; "w_t"; "w_a"; "w_wire"; "i_add"; "i_a"; "i_wire"; "i_t"]%list.
Proof. exact ex_names_full_value. Qed.

Print Assumptions C03_wf_sound.
Print Assumptions C03_elab_total.
Print Assumptions C03_elab_checked.
Print Assumptions C03_names_injective_partial.
Print Assumptions C03_names_refuted.
Print Assumptions C03_names_injective.
Print Assumptions C03_names_i_prefix_refuted.
Print Assumptions C03_names_clock_port_refuted.
Print Assumptions C03_names_reserved_prefix_refuted.
Print Assumptions C03_names_clock_prefix_refuted.
Print Assumptions C03_names_kw_incomplete_refuted.
