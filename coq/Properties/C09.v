(* C09 — storage and sequential blocks follow their reference state machines.
   Statements only; proofs are in Proofs/C09/*.v.  Models: Model/SeqBlocks.v (compositions of the REGENERATED
   Reg_clock / SynchronousMemory_clock / AutoReset_clock of Gen/Seq.v and the primitives of Gen/Prims.v, wired as
   the constructors wire them).  Reference machines: Spec/C09.v.
   `run step s0 h` folds a step function over a history h (one input tuple per clock edge, from power-up);
   every theorem quantifies over ALL histories (arbitrary length, arbitrary Z values on the data inputs) and all
   widths / depths / delays / moduli / reset values. *)
From V Require Import Base.Bits Gen.Seq Model.SeqBlocks Spec.C09.
From V Require Import Proofs.C09.Reg Proofs.C09.Counters Proofs.C09.ModCounter Proofs.C09.Delay Proofs.C09.Mem Proofs.C09.Shift Proofs.C09.SpecSanity Proofs.C09.DualPort.
From V Require Import Gen.WireOps Model.SimKernel Model.Trace Spec.C04 Spec.C05 Proofs.C09.Netlist Proofs.C09.NetlistDump.
From V Require Import Proofs.C09.NetlistDelay Proofs.C09.NetlistDelayDump.

(* ---- Reg: from construction on and after every edge, q is the state of the reference machine (reset = 1 > enable <> 0 >
   hold) started at reset_value mod 2^w, for every width, reset value (also negative / oversized: stored unmasked, shown
   masked) and optional-port configuration.  h = [] is the power-up clause: before the first edge q = reset_value mod 2^w. *)
Theorem C09_reg_refines : forall w (he hr : bool) rv (h : list (Z * Z * Z)), 0 <= w ->
  cell_q (run (reg_m w he hr rv) (cell_init w rv) h) = run (reg_spec w he hr rv) (reg_spec_init w rv) h.
Proof. exact reg_refines. Qed.
Theorem C09_reg_powerup : forall w rv, 0 <= w -> cell_q (cell_init w rv) = rv mod 2 ^ w.
Proof. exact reg_powerup_q. Qed.
(* the leaf attribute follows the reference machine as well *)
Theorem C09_reg_value_refines : forall w (he hr : bool) rv (h : list (Z * Z * Z)), 0 <= w ->
  cell_value (run (reg_m w he hr rv) (cell_init w rv) h) mod 2 ^ w = run (reg_spec w he hr rv) (reg_spec_init w rv) h.
Proof. exact reg_value_refines. Qed.
(* all registers inside the structural blocks have reset_value 0; their power-up cell is the same for every width *)
Theorem C09_cell_init_zero : forall w, cell_init w 0 = cell_zero.
Proof. exact cell_init_zero. Qed.
Example C09_reg_nonvacuous :
  cell_q (run (reg_m 3 true true 13) (cell_init 3 13) [(6, 0, 0); (6, 1, 0); (2, 0, 0); (1, 1, 1)]) = 5 /\
  map (fun h => cell_q (run (reg_m 3 true true 13) (cell_init 3 13) h)) [[]; [(6, 0, 0)]; [(6, 0, 0); (6, 1, 0)]] = [5; 5; 6].
Proof. vm_compute. auto. Qed.

(* ---- TReg *)
Theorem C09_treg_refines : forall wq (he hr : bool) (h : list (Z * Z * Z)), 1 <= wq ->
  cell_q (run (treg_m wq he hr) cell_zero h) = run (treg_spec he hr) 0 h.
Proof. exact treg_refines. Qed.
Example C09_treg_nonvacuous :
  map (fun h => cell_q (run (treg_m 1 true true) cell_zero h)) [[(1,1,0)]; [(1,1,0); (1,0,0)]; [(1,1,0); (0,1,0); (1,1,0)]; [(1,1,0); (1,1,1)]] = [1; 1; 0; 0].
Proof. vm_compute. reflexivity. Qed.

(* ---- Counter: q' = 0 | (q+1) mod 2^w | q *)
Theorem C09_counter_refines : forall w (hi hr : bool) (h : list (Z * Z)), 1 <= w ->
  cell_q (run (counter_m w hi hr) cell_zero h) = run (counter_spec w hi hr) 0 h.
Proof. exact counter_refines. Qed.
Example C09_counter_nonvacuous :
  map (fun k => cell_q (run (counter_m 2 true true) cell_zero (repeat (0, 1) k ++ [(0, 0)]))) (seq 0 6) = [0; 1; 2; 3; 0; 1] /\
  cell_q (run (counter_m 2 true true) cell_zero [(0, 1); (0, 1); (1, 1)]) = 0.
Proof. vm_compute. auto. Qed.

(* the reference counters in closed form when free-running: k mod 2^w, k mod m *)
Theorem C09_counter_spec_free : forall w k, 0 <= w -> run (counter_spec w true false) 0 (repeat (0, 1) k) = Z.of_nat k mod 2 ^ w.
Proof. exact counter_spec_free. Qed.
Theorem C09_modcounter_spec_free : forall m k, 0 < m -> run (modcounter_spec m) 0 (repeat (0, 1) k) = Z.of_nat k mod m.
Proof. exact modcounter_spec_free. Qed.

(* ---- ModuloCounter: q follows the mod-m counter, q < m always, carry exactly in state m-1 *)
Theorem C09_modulo_counter_refines : forall w m (h : list (Z * Z)), 1 <= w -> 1 <= m <= 2 ^ w ->
  let c := run (modcounter_m w 1 m) cell_zero h in
  let s := run (modcounter_spec m) 0 h in
  cell_q c = s /\ 0 <= s < m /\ modcounter_carry w 1 m c = modcounter_carry_spec m s.
Proof. exact modcounter_refines. Qed.
Example C09_modulo_counter_nonvacuous :
  map (fun k => let c := run (modcounter_m 3 1 5) cell_zero (repeat (0, 1) k) in (cell_q c, modcounter_carry 3 1 5 c))
      [0; 1; 4; 5; 6]%nat = [(0, 0); (1, 0); (4, 1); (0, 0); (1, 0)].
Proof. vm_compute. reflexivity. Qed.
(* the guard m <= 2^w cannot be dropped: the comparator sees (m-1) mod 2^w *)
Theorem C09_modulo_counter_guard_needed :
  cell_q (run (modcounter_m 2 1 6) cell_zero [(0, 1); (0, 1)]) <> run (modcounter_spec 6) 0 [(0, 1); (0, 1)].
Proof. exact modcounter_guard_needed. Qed.

(* ---- StepUpCounter *)
Theorem C09_stepup_refines : forall w (hr : bool) (h : list (Z * Z * Z)), 1 <= w ->
  cell_q (run (stepup_m w hr) cell_zero h) = run (stepup_spec w hr) 0 h.
Proof. exact stepup_refines. Qed.
Example C09_stepup_nonvacuous :
  cell_q (run (stepup_m 3 true) cell_zero [(0, 1, 3); (0, 1, 3); (0, 0, 3); (0, 1, 3)]) = 1.
Proof. vm_compute. reflexivity. Qed.

(* ---- DelayLine: the output is the value sampled `delay` enabled edges ago (since the last reset), for EVERY delay *)
Theorem C09_delayline_refines : forall w wr (he hr : bool) delay (h : list (Z * Z * Z)) a_now, 0 <= w -> 0 <= wr ->
  delay_out wr (run (delay_m w he hr) (delay_init delay) h) a_now =
  delay_spec_out w wr delay (run (delay_log he hr) [] h) a_now.
Proof. exact delayline_refines. Qed.
Theorem C09_delayline_cells : forall w (he hr : bool) delay (h : list (Z * Z * Z)), 0 <= w ->
  map cell_q (run (delay_m w he hr) (delay_init delay) h) =
  map (fun k => nth k (run (delay_log he hr) [] h) 0 mod 2 ^ w) (seq 0 delay).
Proof. exact delay_cells_refine. Qed.
Example C09_delayline_nonvacuous :
  map (fun k => delay_out 4 (run (delay_m 4 true true) (delay_init 2) (firstn k [(5,1,0); (6,0,0); (7,1,0); (8,1,0); (9,1,1); (10,1,0)])) 0)
      (seq 0 7) = [0; 0; 0; 5; 7; 0; 0].
Proof. vm_compute. reflexivity. Qed.

(* ---- PipelinePhase: after every edge each lane shows the input sampled at that edge (0 under reset) *)
Theorem C09_pipeline_refines : forall ws (h : list (list Z * Z)) ins reset,
  Forall (fun w => 0 <= w) ws -> Forall (fun i : list Z * Z => length (fst i) = length ws) h -> length ins = length ws ->
  map cell_q (run (pipe_m ws) (pipe_init ws) (h ++ [(ins, reset)])) = pipe_spec ws ins reset.
Proof. exact pipeline_refines. Qed.
Example C09_pipeline_nonvacuous :
  map cell_q (run (pipe_m [2; 3]) (pipe_init [2; 3]) ([([1; 1], 0)] ++ [([7; 7], 0)])) = [3; 7].
Proof. vm_compute. reflexivity. Qed.

(* ---- EdgeDetector (1-bit): r compares the present input with the value sampled at the last edge *)
Theorem C09_edge_detector_refines : forall dir (h : list Z) a_last a,
  Forall (fun x => x = 0 \/ x = 1) h -> (a_last = 0 \/ a_last = 1) -> (a = 0 \/ a = 1) ->
  edge_out dir 1 (run edge_step cell_zero (h ++ [a_last])) a = edge_spec (dir_kind dir) a_last a.
Proof. exact edge_detector_refines. Qed.
Theorem C09_edge_detector_powerup : forall dir a, (a = 0 \/ a = 1) ->
  edge_out dir 1 cell_zero a = edge_spec (dir_kind dir) 0 a.
Proof. exact edge_detector_powerup. Qed.
Example C09_edge_detector_nonvacuous :
  map (fun d => edge_out d 1 (run edge_step cell_zero ([1; 1] ++ [0])) 1) [Pos; Neg; Both] = [1; 0; 1].
Proof. vm_compute. reflexivity. Qed.

(* ---- ClockDivider: clkout = (c / n) mod 2, c = edges since the last reset edge: period exactly 2n *)
Theorem C09_clock_divider_refines : forall n qw wclk (h : list Z),
  1 <= qw -> 1 <= n <= 2 ^ qw -> 1 <= wclk -> Forall (fun r => r = 0 \/ r = 1) h ->
  clkdiv_out (run (clkdiv_step n qw wclk true) clkdiv_init h) = clkdiv_spec_out n (run clkdiv_count 0 h).
Proof. exact clock_divider_refines. Qed.
Theorem C09_clock_divider_free : forall n qw wclk (h : list Z),
  1 <= qw -> 1 <= n <= 2 ^ qw -> 1 <= wclk -> Forall (fun r => r = 0 \/ r = 1) h ->
  clkdiv_out (run (clkdiv_step n qw wclk false) clkdiv_init h) = (Z.of_nat (length h) / n) mod 2.
Proof. exact clock_divider_free. Qed.
Theorem C09_clock_divider_half_period : forall n k, 0 < n -> ((k + n) / n) mod 2 = 1 - (k / n) mod 2.
Proof. exact clkdiv_half_period. Qed.
Example C09_clock_divider_nonvacuous :
  map (fun k => clkdiv_out (run (clkdiv_step 3 2 1 false) clkdiv_init (repeat 0 k))) (seq 0 13) = [0;0;0;1;1;1;0;0;0;1;1;1;0].
Proof. vm_compute. reflexivity. Qed.

(* ---- ShiftRegisterBidirectional: the row of cells IS the reference list (abstraction = map q) *)
Theorem C09_shiftreg_refines : forall w depth (h : list (Z * Z * Z * Z)), 0 <= w -> (1 <= depth)%nat ->
  map cell_q (run (srb_m w) (srb_init depth) h) = run (srb_spec w) (repeat 0 depth) h.
Proof. exact shiftreg_refines. Qed.
Theorem C09_shiftreg_outputs : forall w depth (h : list (Z * Z * Z * Z)), 0 <= w -> (1 <= depth)%nat ->
  srb_left_out w (run (srb_m w) (srb_init depth) h) = hd 0 (run (srb_spec w) (repeat 0 depth) h) /\
  srb_right_out w (run (srb_m w) (srb_init depth) h) = last (run (srb_spec w) (repeat 0 depth) h) 0.
Proof. exact shiftreg_outputs. Qed.
Example C09_shiftreg_nonvacuous :
  map cell_q (run (srb_m 4) (srb_init 3) [(1,9,0,1); (2,9,0,1); (3,9,1,1); (4,9,0,0)]) = [1; 0; 9].
Proof. vm_compute. reflexivity. Qed.

(* ---- Stack_ShiftRegister: any push/pop sequence behaves like a LIFO truncated to depth (pop wins over push,
   pop on empty gives 0, push on full drops the oldest); the cells are the abstract stack padded with zeros *)
Theorem C09_stack_refines : forall w depth (h : list (Z * Z * Z)), 0 <= w -> (1 <= depth)%nat -> Forall ctl_ok h ->
  let s := run (stack_m w) (stack_init depth) h in
  let t := run (stack_spec w depth) ([], 0) h in
  map cell_q (fst s) = pad depth (fst t) /\ (length (fst t) <= depth)%nat /\ stack_dout s = snd t.
Proof. exact stack_refines. Qed.
Example C09_stack_nonvacuous :
  Forall ctl_ok [(1,1,0);(2,1,0);(3,1,0);(1,1,0);(0,0,1);(0,0,1);(2,1,1);(0,0,1)] /\
  map (fun k => stack_dout (run (stack_m 2) (stack_init 3) (firstn k [(1,1,0);(2,1,0);(3,1,0);(1,1,0);(0,0,1);(0,0,1);(2,1,1);(0,0,1)])))
      (seq 0 9) = [0;0;0;0;0;1;3;2;0].
Proof. split; [repeat (apply Forall_cons; [unfold ctl_ok; lia|]); apply Forall_nil | vm_compute; reflexivity]. Qed.

(* the reference stack is a LIFO: push then pop returns the pushed value and restores the stack; a full stack drops its oldest entry *)
Theorem C09_stack_spec_push_pop : forall w depth stk dout x y p, (length stk < depth)%nat ->
  stack_spec w depth (stack_spec w depth (stk, dout) (x, 1, 0)) (y, p, 1) = (stk, x mod 2 ^ w).
Proof. exact stack_spec_push_pop. Qed.
Theorem C09_stack_spec_push_full : forall w depth stk dout x, length stk = depth -> (1 <= depth)%nat ->
  fst (stack_spec w depth (stk, dout) (x, 1, 0)) = (x mod 2 ^ w) :: removelast stk.
Proof. exact stack_spec_push_full. Qed.

(* and while the ideal UNBOUNDED stack never holds more than depth elements, the bounded reference stack is the ideal one:
   together with C09_stack_refines, the block then pops exactly what an ideal LIFO pops *)
Theorem C09_stack_spec_is_ideal : forall w depth h s, never_above w depth s h ->
  run (stack_spec w depth) s h = run (ustack_spec w) s h.
Proof. exact stack_spec_is_ideal. Qed.
Example C09_stack_spec_is_ideal_nonvacuous : never_above 4 2 ([], 0) [(7,1,0); (9,1,0); (0,0,1); (3,1,0); (0,0,1); (0,0,1)] /\
  snd (run (ustack_spec 4) ([], 0) [(7,1,0); (9,1,0); (0,0,1); (3,1,0); (0,0,1); (0,0,1)]) = 7.
Proof. cbn. repeat split; lia. Qed.

(* ---- SynchronousMemory: refinement to a total map; a read returns the content BEFORE the same edge's write *)
Theorem C09_syncmem_refines : forall aw wr (h : list (Z * Z * Z * Z)), 0 <= aw -> 0 <= wr -> Forall (addr_ok aw) h ->
  let s := run (mem_m wr) (mem_init aw) h in
  let t := run (mem_spec wr) mem_spec_init h in
  (forall a, 0 <= a < 2 ^ aw -> Seq.getZ (mem_data s) a = fst t a) /\
  Z.of_nat (length (mem_data s)) = 2 ^ aw /\
  mem_out s = snd t.
Proof. exact syncmem_refines. Qed.
Theorem C09_syncmem_read_before_write : forall wr s ra wa we wd,
  mem_out (mem_step wr s ra wa we wd) = trunc wr (Seq.getZ (mem_data s) ra).
Proof. exact syncmem_read_before_write. Qed.
Example C09_syncmem_nonvacuous :
  Forall (addr_ok 2) [(1,1,1,9); (1,1,1,5); (1,2,0,7)] /\
  map (fun k => mem_out (run (mem_m 3) (mem_init 2) (firstn k [(1,1,1,9); (1,1,1,5); (1,2,0,7)]))) (seq 0 4) = [0; 0; 1; 5].
Proof. split; [repeat (apply Forall_cons; [unfold addr_ok; lia|]); apply Forall_nil | vm_compute; reflexivity]. Qed.

(* ---- DualPortSynchronousMemory (REGENERATED clock(): read a, read b, write a, write b): refinement to a total map for
   every address-legal history.  Both read ports return the content before the edge's writes - also when port b reads the cell
   port a writes at that edge (and vice versa); when both ports write the same cell at one edge, port b's data wins. *)
Theorem C09_dualport_refines : forall aw wra wrb (h : list ((Z * Z * Z * Z) * (Z * Z * Z * Z))),
  0 <= aw -> 0 <= wra -> 0 <= wrb -> Forall (dp_addr_ok aw) h ->
  let s := run (dp_step wra wrb) (dp_init aw) h in
  let t := run (dp_spec wra wrb) dp_spec_init h in
  (forall a, 0 <= a < 2 ^ aw -> Seq.getZ (dp_data s) a = fst t a) /\
  Z.of_nat (length (dp_data s)) = 2 ^ aw /\
  dp_out_a s = fst (snd t) /\ dp_out_b s = snd (snd t).
Proof. exact dualport_refines. Qed.
Theorem C09_dualport_read_before_any_write : forall wra wrb s raa waa wa wda rab wab wb wdb,
  let s' := dp_step wra wrb s ((raa, waa, wa, wda), (rab, wab, wb, wdb)) in
  dp_out_a s' = trunc wra (Seq.getZ (dp_data s) raa) /\ dp_out_b s' = trunc wrb (Seq.getZ (dp_data s) rab).
Proof. exact dualport_read_before_any_write. Qed.
Theorem C09_dualport_b_wins : forall wra wrb s raa wa wda rab wab wdb wb,
  wb <> 0 -> 0 <= wab < Z.of_nat (length (dp_data s)) ->
  Seq.getZ (dp_data (dp_step wra wrb s ((raa, wab, wa, wda), (rab, wab, wb, wdb)))) wab = wdb.
Proof. exact dualport_b_wins. Qed.
Example C09_dualport_nonvacuous :
  let h := [((0, 1, 1, 5), (1, 0, 0, 0)); ((1, 2, 1, 7), (2, 2, 1, 9)); ((2, 0, 0, 0), (1, 0, 0, 0))] in
  Forall (dp_addr_ok 2) h /\
  map (fun k => let s := run (dp_step 4 4) (dp_init 2) (firstn k h) in (dp_out_a s, dp_out_b s)) (seq 0 4) = [(0, 0); (0, 0); (5, 0); (9, 5)].
Proof. split; [repeat (apply Forall_cons; [unfold dp_addr_ok; lia|]); apply Forall_nil | vm_compute; reflexivity]. Qed.

(* ---- AutoReset: high after edges 1 and 2 only *)
Theorem C09_autoreset_refines : forall w k, 0 <= w -> ar_out (iter k (ar_step w) ar_init) = autoreset_spec w k.
Proof. exact autoreset_refines. Qed.
Example C09_autoreset_nonvacuous : map (fun k => ar_out (iter k (ar_step 1) ar_init)) (seq 0 6) = [0; 1; 1; 0; 0; 0].
Proof. vm_compute. reflexivity. Qed.

(* ==== the kernel-level NETLISTS of Counter and TReg run by Model/SimKernel (poke; propagateAll; clk_cycle) compute the block
   models of Model/SeqBlocks.v.  `counter_design w wr wi hi hr` / `treg_design wq wt we wr he hr` (Proofs/C09/Netlist.v) are
   HAND-WRITTEN terms mirroring Counter.__init__ / TReg.__init__ in the shape py/netlist.py dumps a live object (leaves = the
   REGENERATED Gen functions), for every width of q and of the port wires and every port configuration.
   `*_net_run ... h` = power-up (all wires 0, Reg.__init__'s put on q, propagateAll) followed, per history entry, by the pokes of
   the existing ports and Simulator.clk(1).  A poke stores the value masked to the port's width: `*_seen`.  NO guard on widths. *)
Theorem C09_counter_netlist_refines : forall w wr wi (hi hr : bool) (h : list (Z * Z)),
  let s := counter_net_run w wr wi hi hr h in
  let c := run (counter_m w hi hr) cell_zero (map (counter_seen wr wi) h) in
  rd (vals s) (counter_q hi hr) = cell_q c /\ sts s = [St_Reg (fst c)] /\ pend s = [].
Proof. exact counter_netlist_refines. Qed.
(* ... hence, with C09_counter_refines, the netlist's q wire follows the reference counter on the RAW poked history *)
Theorem C09_counter_netlist_spec : forall w wr wi (hi hr : bool) (h : list (Z * Z)), 1 <= w -> 1 <= wr -> 1 <= wi ->
  rd (vals (counter_net_run w wr wi hi hr h)) (counter_q hi hr) = run (counter_spec w hi hr) 0 h.
Proof. exact counter_netlist_spec. Qed.
(* the hypotheses of the general kernel theorems (C04 settling, C05 atomic edges / clk split) hold on this netlist, and every
   valuation the run passes through is settled *)
Theorem C09_counter_netlist_wellformed : forall w wr wi (hi hr : bool),
  let D := counter_design w wr wi hi hr in
  Spec.C05.topo (combs D) /\ ordered (combs D) /\ single_driver (combs D) /\ registered_once D /\ single_writer D /\ outs_nodup D.
Proof. exact counter_design_wellformed. Qed.
Theorem C09_counter_netlist_settled : forall w wr wi (hi hr : bool) (h : list (Z * Z)),
  settled (counter_design w wr wi hi hr) (vals (counter_net_run w wr wi hi hr h)).
Proof. exact counter_net_settled. Qed.
(* one history entry is literally: pokes, propagateAll, one clk_cycle *)
Theorem C09_counter_netlist_step_is_clk_cycle : forall w wr wi (hi hr : bool) s i,
  let D := counter_design w wr wi hi hr in
  let sp := fold_left (fun s p => poke D s (fst p) (snd p)) (counter_pokes hi hr i) s in
  counter_net_step w wr wi hi hr s i =
  clk_cycle D {| vals := propagateAll D (vals sp); pend := pend sp; sts := sts sp; total := total sp |}.
Proof. exact counter_net_step_is_clk_cycle. Qed.
(* per-run sanity: the hand-written 4-bit term under the kernel, all four port configurations, 2-bit reset / 3-bit inc wires *)
Example C09_counter_netlist_runs :
  let h := [(0, 1); (0, 1); (0, 5); (2, 0); (0, 1); (3, 1); (0, 1); (0, 4); (0, 7)] in
  forallb (fun cfg : bool * bool => let '(hi, hr) := cfg in
     list_eqb (map (fun k => rd (vals (counter_net_run 4 2 3 hi hr (firstn k h))) (counter_q hi hr)) (seq 0 10))
              (map (fun k => cell_q (run (counter_m 4 hi hr) cell_zero (map (counter_seen 2 3) (firstn k h)))) (seq 0 10)))
    [(true, true); (true, false); (false, true); (false, false)] = true /\
  map (fun k => rd (vals (counter_net_run 4 2 3 true true (firstn k h))) (counter_q true true)) (seq 0 10) = [0; 1; 2; 3; 3; 4; 0; 1; 1; 2].
Proof. vm_compute. auto. Qed.
(* the hand-written term IS what py/netlist.py printed for live Counter objects (pasted dumps, Proofs/C09/NetlistDump.v) *)
Example C09_counter_design_is_dump :
  counter_design 4 1 1 true true = counter_dump_4_1_1_true_true /\ counter_design 4 1 1 true false = counter_dump_4_1_1_true_false /\
  counter_design 4 1 1 false true = counter_dump_4_1_1_false_true /\ counter_design 4 1 1 false false = counter_dump_4_1_1_false_false /\
  counter_design 1 1 1 true true = counter_dump_1_1_1_true_true /\ counter_design 7 2 3 true true = counter_dump_7_2_3_true_true.
Proof. repeat split; reflexivity. Qed.

Theorem C09_treg_netlist_refines : forall wq wt we wr (he hr : bool) (h : list (Z * Z * Z)),
  let s := treg_net_run wq wt we wr he hr h in
  let c := run (treg_m wq he hr) cell_zero (map (treg_seen wt we wr) h) in
  rd (vals s) (treg_q he hr) = cell_q c /\ sts s = [St_Reg (fst c)] /\ pend s = [].
Proof. exact treg_netlist_refines. Qed.
(* with C09_treg_refines: the reference toggle machine on the values the port wires show (reset fires on masked value = 1) *)
Theorem C09_treg_netlist_spec : forall wq wt we wr (he hr : bool) (h : list (Z * Z * Z)), 1 <= wq ->
  rd (vals (treg_net_run wq wt we wr he hr h)) (treg_q he hr) = run (treg_spec he hr) 0 (map (treg_seen wt we wr) h).
Proof. exact treg_netlist_spec. Qed.
Theorem C09_treg_netlist_wellformed : forall wq wt we wr (he hr : bool),
  let D := treg_design wq wt we wr he hr in
  Spec.C05.topo (combs D) /\ ordered (combs D) /\ single_driver (combs D) /\ registered_once D /\ single_writer D /\ outs_nodup D.
Proof. exact treg_design_wellformed. Qed.
Theorem C09_treg_netlist_settled : forall wq wt we wr (he hr : bool) (h : list (Z * Z * Z)),
  settled (treg_design wq wt we wr he hr) (vals (treg_net_run wq wt we wr he hr h)).
Proof. exact treg_net_settled. Qed.
Example C09_treg_netlist_runs :
  let h := [(1, 1, 0); (1, 0, 0); (1, 1, 0); (0, 1, 0); (3, 1, 0); (1, 1, 1); (1, 1, 3); (1, 2, 0)] in
  forallb (fun cfg : bool * bool => let '(he, hr) := cfg in
     list_eqb (map (fun k => rd (vals (treg_net_run 1 2 2 2 he hr (firstn k h))) (treg_q he hr)) (seq 0 9))
              (map (fun k => cell_q (run (treg_m 1 he hr) cell_zero (map (treg_seen 2 2 2) (firstn k h)))) (seq 0 9)))
    [(true, true); (true, false); (false, true); (false, false)] = true /\
  map (fun k => rd (vals (treg_net_run 1 2 2 2 true true (firstn k h))) (treg_q true true)) (seq 0 9) = [0; 1; 1; 0; 0; 1; 0; 1; 0].
Proof. vm_compute. auto. Qed.
Example C09_treg_design_is_dump :
  treg_design 1 1 1 1 true true = treg_dump_1_1_1_1_true_true /\ treg_design 1 1 1 1 true false = treg_dump_1_1_1_1_true_false /\
  treg_design 1 1 1 1 false true = treg_dump_1_1_1_1_false_true /\ treg_design 1 1 1 1 false false = treg_dump_1_1_1_1_false_false /\
  treg_design 3 2 2 3 true true = treg_dump_3_2_2_3_true_true.
Proof. repeat split; reflexivity. Qed.


(* ==== DelayLine: a netlist whose SIZE depends on a parameter.  `delayline_design w wo we wr he hr delay` (Proofs/C09/NetlistDelay.v)
   is a HAND-WRITTEN recursion over `delay` producing the chain of Reg leaves in the shape py/netlist.py dumps a live DelayLine
   (wires: 0 clk, 1 a, en?, reset?, r, then r0 .. r{delay-1}; one Buf; `delay` Reg leaves on one un-gated driver, no driver for
   delay 0; leaves = the REGENERATED Gen functions); w = width of a and of the chain, wo = width of r, we / wr = widths of en / reset.
   `delayline_net_run ... delay h` = power-up (all wires 0, every Reg.__init__'s put of 0, propagateAll) followed, per history entry
   (a, e, r), by the pokes of the existing ports and Simulator.clk(1).  Proved by induction over the netlist (clockAll over the chain,
   settling of the pending values) for EVERY delay, width (no guard), port configuration and history. *)
Theorem C09_delayline_netlist_refines : forall w wo we wr (he hr : bool) (delay : nat) (h : list (Z * Z * Z)),
  let s := delayline_net_run w wo we wr he hr delay h in
  let cs := run (delay_m w he hr) (delay_init delay) (map (delayline_seen w we wr) h) in
  skipn (S (dl_r he hr)) (vals s) = map cell_q cs /\
  length (vals s) = (S (dl_r he hr) + delay)%nat /\
  rd (vals s) (dl_r he hr) = delay_out wo cs (dl_a_last w h) /\
  sts s = map st_of cs /\ pend s = [].
Proof. exact delayline_netlist_refines. Qed.
(* the combinational read the harness makes before an edge: poke a_now on a, propagateAll, read r *)
Theorem C09_delayline_netlist_peek : forall w wo we wr (he hr : bool) (delay : nat) (h : list (Z * Z * Z)) a_now,
  let D := delayline_design w wo we wr he hr delay in
  let s := delayline_net_run w wo we wr he hr delay h in
  let cs := run (delay_m w he hr) (delay_init delay) (map (delayline_seen w we wr) h) in
  rd (propagateAll D (vals (poke D s 1%nat a_now))) (dl_r he hr) = delay_out wo cs (Wire_put w a_now).
Proof. exact delayline_net_peek. Qed.
(* ... hence, with C09_delayline_refines / C09_delayline_cells, the netlist follows the reference machine (the log of the samples taken
   at enabled edges since the last reset edge) on the values the port wires show *)
Theorem C09_delayline_netlist_spec : forall w wo we wr (he hr : bool) (delay : nat) (h : list (Z * Z * Z)) a_now, 0 <= w -> 0 <= wo ->
  let D := delayline_design w wo we wr he hr delay in
  let s := delayline_net_run w wo we wr he hr delay h in
  let hs := map (delayline_seen w we wr) h in
  rd (propagateAll D (vals (poke D s 1%nat a_now))) (dl_r he hr) =
    delay_spec_out w wo delay (run (delay_log he hr) [] hs) (Wire_put w a_now) /\
  rd (vals s) (dl_r he hr) = delay_spec_out w wo delay (run (delay_log he hr) [] hs) (dl_a_last w h) /\
  skipn (S (dl_r he hr)) (vals s) = map (fun k => nth k (run (delay_log he hr) [] hs) 0 mod 2 ^ w) (seq 0 delay).
Proof. exact delayline_netlist_spec. Qed.
Theorem C09_delayline_netlist_wellformed : forall w wo we wr (he hr : bool) (delay : nat),
  let D := delayline_design w wo we wr he hr delay in
  Spec.C05.topo (combs D) /\ ordered (combs D) /\ single_driver (combs D) /\ registered_once D /\ single_writer D /\ outs_nodup D.
Proof. exact delayline_design_wellformed. Qed.
Theorem C09_delayline_netlist_settled : forall w wo we wr (he hr : bool) (delay : nat) (h : list (Z * Z * Z)),
  settled (delayline_design w wo we wr he hr delay) (vals (delayline_net_run w wo we wr he hr delay h)).
Proof. exact delayline_net_settled. Qed.
Theorem C09_delayline_netlist_step_is_clk_cycle : forall w wo we wr (he hr : bool) (delay : nat) s i,
  let D := delayline_design w wo we wr he hr delay in
  let sp := fold_left (fun s p => poke D s (fst p) (snd p)) (delayline_pokes he hr i) s in
  delayline_net_step w wo we wr he hr delay s i =
  clk_cycle D {| vals := propagateAll D (vals sp); pend := pend sp; sts := sts sp; total := total sp |}.
Proof. exact delayline_net_step_is_clk_cycle. Qed.
(* per-run sanity (vm_compute): the recursive term under the kernel, 4-bit data, 3-bit output, 2-bit control wires, delays 0..4, all port
   configurations, equals the block model row by row on r, the chain wires and the combinational peek; expected rows written out *)
Example C09_delayline_netlist_runs :
  let h := [(5,1,0); (6,0,0); (7,1,0); (24,1,0); (9,1,1); (10,3,0); (11,1,2)] in
  forallb (fun cfg : bool * bool * nat => let '(he, hr, delay) := cfg in
     let D := delayline_design 4 3 2 2 he hr delay in
     forallb (fun k =>
        let s := delayline_net_run 4 3 2 2 he hr delay (firstn k h) in
        let cs := run (delay_m 4 he hr) (delay_init delay) (map (delayline_seen 4 2 2) (firstn k h)) in
        list_eqb (skipn (S (dl_r he hr)) (vals s)) (map cell_q cs) &&
        (rd (vals s) (dl_r he hr) =? delay_out 3 cs (dl_a_last 4 (firstn k h))) &&
        (rd (propagateAll D (vals (poke D s 1%nat 14))) (dl_r he hr) =? delay_out 3 cs 14)) (seq 0 8))
    (flat_map (fun delay => [(true, true, delay); (true, false, delay); (false, true, delay); (false, false, delay)]) (seq 0 5)) = true /\
  map (fun k => rd (vals (delayline_net_run 4 3 2 2 true true 2 (firstn k h))) (dl_r true true)) (seq 0 8) = [0; 0; 0; 5; 7; 0; 0; 2] /\
  map (fun k => skipn 5 (vals (delayline_net_run 4 3 2 2 true true 2 (firstn k h)))) (seq 0 8) =
    [[0; 0]; [5; 0]; [5; 0]; [7; 5]; [8; 7]; [0; 0]; [10; 0]; [11; 10]].
Proof. vm_compute. auto. Qed.
Example C09_delayline_netlist_spec_nonvacuous :
  0 <= 4 /\ 0 <= 3 /\
  let h := [(5,1,0); (6,0,0); (7,1,0); (24,1,0)] in
  run (delay_log true true) [] (map (delayline_seen 4 2 2) h) = [8; 7; 5] /\
  rd (vals (delayline_net_run 4 3 2 2 true true 2 h)) (dl_r true true) = 7.
Proof. split; [lia|split; [lia|vm_compute; auto]]. Qed.
(* the recursive term IS what py/netlist.py printed for live DelayLine objects, delays 0, 1, 2, 3, 5, all port configurations, several
   widths (pasted dumps, Proofs/C09/NetlistDelayDump.v), including initial leaf states and constructor-time pokes *)
Example C09_delayline_design_is_dump :
  delayline_design 4 4 1 1 true true 0 = delayline_dump_4_4_1_1_true_true_0 /\ delayline_design 4 4 1 1 true true 1 = delayline_dump_4_4_1_1_true_true_1 /\
  delayline_design 4 4 1 1 true true 2 = delayline_dump_4_4_1_1_true_true_2 /\ delayline_design 4 4 1 1 true true 3 = delayline_dump_4_4_1_1_true_true_3 /\
  delayline_design 4 4 1 1 false false 2 = delayline_dump_4_4_1_1_false_false_2 /\ delayline_design 4 4 1 1 true false 2 = delayline_dump_4_4_1_1_true_false_2 /\
  delayline_design 4 4 1 1 false true 2 = delayline_dump_4_4_1_1_false_true_2 /\ delayline_design 4 4 1 1 false false 0 = delayline_dump_4_4_1_1_false_false_0 /\
  delayline_design 3 5 2 3 true true 5 = delayline_dump_3_5_2_3_true_true_5 /\ delayline_design 8 2 2 1 false true 1 = delayline_dump_8_2_2_1_false_true_1 /\
  delayline_st0 5 = delayline_dump_3_5_2_3_true_true_5_st0 /\ delayline_init_pokes true true 5 = delayline_dump_3_5_2_3_true_true_5_pokes.
Proof. repeat split; reflexivity. Qed.


Print Assumptions C09_reg_refines.
Print Assumptions C09_reg_value_refines.
Print Assumptions C09_reg_powerup.
Print Assumptions C09_cell_init_zero.
Print Assumptions C09_treg_refines.
Print Assumptions C09_counter_refines.
Print Assumptions C09_modulo_counter_refines.
Print Assumptions C09_modulo_counter_guard_needed.
Print Assumptions C09_stepup_refines.
Print Assumptions C09_delayline_refines.
Print Assumptions C09_delayline_cells.
Print Assumptions C09_pipeline_refines.
Print Assumptions C09_edge_detector_refines.
Print Assumptions C09_edge_detector_powerup.
Print Assumptions C09_clock_divider_refines.
Print Assumptions C09_clock_divider_free.
Print Assumptions C09_clock_divider_half_period.
Print Assumptions C09_shiftreg_refines.
Print Assumptions C09_shiftreg_outputs.
Print Assumptions C09_stack_refines.
Print Assumptions C09_syncmem_refines.
Print Assumptions C09_syncmem_read_before_write.
Print Assumptions C09_autoreset_refines.
Print Assumptions C09_dualport_refines.
Print Assumptions C09_dualport_read_before_any_write.
Print Assumptions C09_dualport_b_wins.
Print Assumptions C09_stack_spec_push_pop.
Print Assumptions C09_stack_spec_push_full.
Print Assumptions C09_stack_spec_is_ideal.
Print Assumptions C09_counter_spec_free.
Print Assumptions C09_modcounter_spec_free.
Print Assumptions C09_counter_netlist_refines.
Print Assumptions C09_counter_netlist_spec.
Print Assumptions C09_counter_netlist_wellformed.
Print Assumptions C09_counter_netlist_settled.
Print Assumptions C09_counter_netlist_step_is_clk_cycle.
Print Assumptions C09_treg_netlist_refines.
Print Assumptions C09_treg_netlist_spec.
Print Assumptions C09_treg_netlist_wellformed.
Print Assumptions C09_treg_netlist_settled.
Print Assumptions C09_delayline_netlist_refines.
Print Assumptions C09_delayline_netlist_peek.
Print Assumptions C09_delayline_netlist_spec.
Print Assumptions C09_delayline_netlist_wellformed.
Print Assumptions C09_delayline_netlist_settled.
Print Assumptions C09_delayline_netlist_step_is_clk_cycle.
