(* C15 — Waveform capture records exactly what the wires carried, once per cycle, and the WaveDrom
   rendering decodes back to it.  Statements only; proofs in Proofs/C15/*.v.
   Model/Waveform.v is the hand-written model of py4hw.logic.simulation.Waveform (tied to the real class by
   py/props/c15.py on every run); Spec/C15.v holds the independent reader `decode`, the reference watch-list
   normalisation `first_occ`, the reference history `hist` and the pre-edge values `samples_of`. *)
From V Require Import Model.Trace Proofs.C06.Range.     (* C06's op / run_op; before Spec.C15: `fits` below is Spec.C15.fits *)
From V Require Import Base.Bits Model.SimKernel Model.Waveform Spec.C15.
From V Require Import Proofs.C15.Digits Proofs.C15.Row Proofs.C15.Watch Proofs.C15.Kernel Proofs.C15.Wavedrom Proofs.C15.EndToEnd Proofs.C15.History Proofs.C15.Main Proofs.C15.Powerup.


(* ---- watch list: ports stand for their wire, repeated entries are merged by wire identity, order of
   first occurrence; one (empty) sample list per unique wire; one display format per ENTRY chosen by width *)
Theorem C15_watchlist : forall ws entries,
  let r := wf_init ws entries in
  wf_wires r = entries /\
  wf_uniq r = first_occ [] (map entry_wire entries) /\
  NoDup (wf_uniq r) /\
  (forall w, In w (wf_uniq r) <-> exists e, In e entries /\ entry_wire e = w) /\
  wf_getDict r = map (fun w => (w, [])) (wf_uniq r) /\
  wf_format r = map (fun e => if nth (entry_wire e) ws 0 =? 1 then FmtEmpty else FmtHEX) entries.
Proof. exact thm_C15_watchlist. Qed.

(* ---- the recorder taken alone: after ANY history of clock() / clear(), every entry of the watch list
   (a wire, a port, a repeated entry) reads the reference sample list of its wire: one sample per clock()
   since the last clear(), the value the wire held at that call, in order *)
Theorem C15_history : forall ws entries ops e, In e entries ->
  dict_get (wf_getDict (fold_left wf_op ops (wf_init ws entries))) (entry_wire e) = Some (hist (entry_wire e) [] ops).
Proof. exact thm_C15_history. Qed.

(* ---- inside the simulator kernel (any design, any other leaves, any state type): a recorder that is listed
   once among the clockables of a clock driver WITHOUT enable holds, after clk(n), n more samples per watched
   wire; sample t is the value the wire carried going into edge t (Spec.samples_of: vals BEFORE the edge's
   settle).  Guards: listed_once / ungated (see C15_gated_skips for what a gated recorder does). *)
Theorem C15_one_sample_per_cycle :
  forall (St : Type) (getR : St -> dict) (setR : St -> dict -> St),
    (forall st dd, getR (setR st dd) = dd) ->
  forall (d : design St) (k : nat) ws entries (r : wf) (n : nat) (s : state St) e old,
    nth_error (seqs d) k = Some (recorder_leaf getR setR (wf_uniq r)) ->
    listed_once d k -> ungated d k ->
    wf_inv ws entries r ->
    recS getR k s = Some (wf_getDict r) ->
    In e entries -> dict_get (wf_getDict r) (entry_wire e) = Some old ->
    exists dd', recS getR k (clk d n s) = Some dd'
      /\ keys dd' = wf_uniq r
      /\ dict_get dd' (entry_wire e) = Some (old ++ samples_of d (propagated d s) (entry_wire e) n)
      /\ length (old ++ samples_of d (propagated d s) (entry_wire e) n) = (length old + n)%nat.
Proof. exact thm_C15_one_sample_per_cycle. Qed.

(* ---- the same over a whole user history (History.kop: pokes of inputs, clk(n) with n = 0 allowed, clear()):
   a fresh recorder in an ungated domain of ANY design ends with, for every entry, the reference list History.kexp
   (each clk(n) contributes the n pre-edge values of the entry's wire, clear() forgets), whose length is the
   number of cycles simulated since the last clear() *)
Theorem C15_kernel_history :
  forall (St : Type) (getR : St -> dict) (setR : St -> dict -> St),
    (forall st dd, getR (setR st dd) = dd) ->
  forall (d : design St) (k : nat) ws entries (ops : list kop) (s : state St),
    nth_error (seqs d) k = Some (recorder_leaf getR setR (wf_uniq (wf_init ws entries))) ->
    listed_once d k -> ungated d k ->
    recS getR k s = Some (wf_getDict (wf_init ws entries)) ->
    exists dd', recS getR k (fold_left (krun getR setR d k) ops s) = Some dd' /\
      keys dd' = wf_uniq (wf_init ws entries) /\
      forall e, In e entries ->
        dict_get dd' (entry_wire e) = Some (kexp getR setR d k (entry_wire e) [] s ops) /\
        length (kexp getR setR d k (entry_wire e) [] s ops) = kcount 0 ops.
Proof.
  intros St getR setR Hgs d k ws entries ops s Hleaf H1 H2 Hr.
  exact (khistory_entries getR setR Hgs d k _ Hleaf ws entries ops s H1 H2 eq_refl Hr).
Qed.

(* the invariant assumed above is what __init__ establishes and what clock()/clear() keep *)
Theorem C15_invariant : forall ws entries ops, wf_inv ws entries (fold_left wf_op ops (wf_init ws entries)).
Proof. exact thm_C15_invariant. Qed.

(* the guard is needed: at an edge where every clock driver listing the recorder is gated off, the recorder
   records NOTHING (so a gated recorder has fewer samples than simulated cycles) *)
Theorem C15_gated_skips :
  forall (St : Type) (getR : St -> dict) (setR : St -> dict -> St),
    (forall st dd, getR (setR st dd) = dd) ->
  forall (d : design St) (k : nat) uq (s : state St) dd,
    nth_error (seqs d) k = Some (recorder_leaf getR setR uq) ->
    (forall drv, In drv (drivers d) -> In k (d_leaves drv) -> enabled (vals s) drv = false) ->
    recS getR k s = Some dd -> recS getR k (clk_cycle d s) = Some dd.
Proof. exact thm_C15_gated_skips. Qed.

(* ---- rendering.  Labels: a value written with {:X} reads back *)
Theorem C15_hex_label_roundtrip : forall v, 0 <= v -> parse_hex (str_HEX v) = Some v.
Proof. exact thm_C15_hex_label_roundtrip. Qed.

(* every width, every history of in-range samples (run-length dots included): the row get_wavedrom builds
   is read back by the independent decoder as exactly the samples *)
Theorem C15_roundtrip : forall ww samples, Forall (fits ww) samples ->
  decode ww (row ww (if ww =? 1 then FmtEmpty else FmtHEX) samples) = Some samples.
Proof. exact thm_C15_roundtrip. Qed.

(* hence the rendering loses nothing: different (in-range) histories give different rows *)
Theorem C15_rendering_injective : forall ww s1 s2, Forall (fits ww) s1 -> Forall (fits ww) s2 ->
  row ww (if ww =? 1 then FmtEmpty else FmtHEX) s1 = row ww (if ww =? 1 then FmtEmpty else FmtHEX) s2 -> s1 = s2.
Proof. exact thm_C15_rendering_injective. Qed.

(* the range guard (C06: a wire's value fits its width) cannot be dropped: a 1-bit row holding 10 renders
   "x10x" and reads back as two samples *)
Theorem C15_roundtrip_unguarded_refuted : exists ww samples,
  decode ww (row ww (if ww =? 1 then FmtEmpty else FmtHEX) samples) <> Some samples.
Proof. exact thm_C15_roundtrip_unguarded_refuted. Qed.

(* span: a row is 'x', one character per sample, 'x'; the clock row is 'P', one '.' per cycle, 'x' *)
Theorem C15_span : forall ww f samples n,
  (ww = 1 -> Forall (fits 1) samples) ->
  length (fst (row ww f samples)) = (length samples + 2)%nat /\
  (exists body, fst (row ww f samples) = 120 :: body ++ [120]) /\
  clock_row n = 80 :: repeat 46 n ++ [120] /\ length (clock_row n) = (n + 2)%nat /\ decode_clock (clock_row n) = Some n.
Proof. exact thm_C15_span. Qed.

(* get_wavedrom of a whole recording (any state reached from __init__ by clock()/clear(), samples in range):
   the clock row spans the n recorded cycles, there is one row per ENTRY, row i reads back as the sample
   list of entry i's wire and has n+2 characters *)
Theorem C15_wavedrom_decodes : forall ws entries ops, entries <> [] ->
  let r := fold_left wf_op ops (wf_init ws entries) in
  in_range ws (wf_getDict r) ->
  exists n, decode_clock (fst (wf_wavedrom ws r)) = Some n /\ length (fst (wf_wavedrom ws r)) = (n + 2)%nat /\
  length (snd (wf_wavedrom ws r)) = length entries /\
  forall i e, nth_error entries i = Some e ->
    exists rw samples, nth_error (snd (wf_wavedrom ws r)) i = Some rw
      /\ dict_get (wf_getDict r) (entry_wire e) = Some samples
      /\ decode (nth (entry_wire e) ws 0) rw = Some samples
      /\ length samples = n /\ length (fst rw) = (n + 2)%nat.
Proof. exact thm_C15_wavedrom_decodes. Qed.

(* ---- clear(): every watched wire has zero samples again, the watch list is kept, and recording goes on
   as from a fresh recorder (C15_history / C15_one_sample_per_cycle apply to the cleared state: wf_inv) *)
Theorem C15_clear : forall ws entries ops,
  let r := wf_clear (fold_left wf_op ops (wf_init ws entries)) in
  wf_getDict r = wf_getDict (wf_init ws entries) /\ wf_uniq r = wf_uniq (wf_init ws entries) /\
  wf_inv ws entries r /\
  (entries <> [] -> wf_wavedrom ws r = ([80; 120], map (fun _ => ([120; 120], [])) entries)).
Proof. exact thm_C15_clear. Qed.

(* ---- capstone: a fresh recorder watching `entries` inside the kernel; after clk(n), get_wavedrom has a clock
   row of n cycles and one row per entry, and row i reads back (independent decoder) as the n values the entry's
   wire carried going into each edge.  The range hypothesis is C06_invariant (every wire value fits its width). *)
Theorem C15_end_to_end :
  forall (St : Type) (getR : St -> dict) (setR : St -> dict -> St),
    (forall st dd, getR (setR st dd) = dd) ->
  forall (d : design St) (k : nat) entries (n : nat) (s : state St),
    let r0 := wf_init (widths d) entries in
    nth_error (seqs d) k = Some (recorder_leaf getR setR (wf_uniq r0)) ->
    listed_once d k -> ungated d k -> entries <> [] ->
    (forall t w, fits (nth w (widths d) 0) (pre_edge d (propagated d s) w t)) ->
    recS getR k s = Some (wf_getDict r0) ->
    exists dd', recS getR k (clk d n s) = Some dd' /\
      (let r' := {| wf_wires := wf_wires r0; wf_format := wf_format r0; wf_uniq := wf_uniq r0; wf_data := dd' |} in
      decode_clock (fst (wf_wavedrom (widths d) r')) = Some n /\
      length (snd (wf_wavedrom (widths d) r')) = length entries /\
      forall i e, nth_error entries i = Some e ->
        exists rw, nth_error (snd (wf_wavedrom (widths d) r')) i = Some rw
          /\ dict_get dd' (entry_wire e) = Some (samples_of d (propagated d s) (entry_wire e) n)
          /\ decode (nth (entry_wire e) (widths d) 0) rw = Some (samples_of d (propagated d s) (entry_wire e) n)
          /\ length (fst rw) = (n + 2)%nat).
Proof. intros St getR setR Hgs d k entries n s r0 Hleaf. exact (end_to_end getR setR Hgs d k entries Hleaf n s). Qed.

(* ---- composition with C06 (added in session 5): the range hypothesis of C15_end_to_end is discharged by C06's
   invariant.  s is ANY state reached from Simulator construction by a list of C06 operations (clk(n) / external pokes /
   propagateAll, Proofs/C06/Range.v `op`, the list C06_invariant quantifies over), for ANY design with arbitrary leaf
   functions; the only condition on the design is C06's (declared widths are not negative).  A recorder that is
   fresh at s, clk(n), get_wavedrom: every row reads back as the n values the entry's wire carried going into each
   edge.  No range assumption. *)
Theorem C15_end_to_end_from_powerup :
  forall (St : Type) (getR : St -> dict) (setR : St -> dict -> St),
    (forall st dd, getR (setR st dd) = dd) ->
  forall (d : design St) (k : nat) entries (st0 : list St) (ops : list op) (n : nat),
    let r0 := wf_init (widths d) entries in
    let s := fold_left (run_op d) ops (init d st0) in
    Forall (fun w => 0 <= w) (widths d) ->
    nth_error (seqs d) k = Some (recorder_leaf getR setR (wf_uniq r0)) ->
    listed_once d k -> ungated d k -> entries <> [] ->
    recS getR k s = Some (wf_getDict r0) ->
    exists dd', recS getR k (clk d n s) = Some dd' /\
      (let r' := {| wf_wires := wf_wires r0; wf_format := wf_format r0; wf_uniq := wf_uniq r0; wf_data := dd' |} in
      decode_clock (fst (wf_wavedrom (widths d) r')) = Some n /\
      length (snd (wf_wavedrom (widths d) r')) = length entries /\
      forall i e, nth_error entries i = Some e ->
        exists rw, nth_error (snd (wf_wavedrom (widths d) r')) i = Some rw
          /\ dict_get dd' (entry_wire e) = Some (samples_of d (propagated d s) (entry_wire e) n)
          /\ decode (nth (entry_wire e) (widths d) 0) rw = Some (samples_of d (propagated d s) (entry_wire e) n)
          /\ length (fst rw) = (n + 2)%nat).
Proof. exact end_to_end_from_powerup_thm. Qed.

(* the same when leaves put values on wires from their constructors (C06_invariant_constructor_puts) *)
Theorem C15_end_to_end_from_powerup_constructor_puts :
  forall (St : Type) (getR : St -> dict) (setR : St -> dict -> St),
    (forall st dd, getR (setR st dd) = dd) ->
  forall (d : design St) (k : nat) entries (st0 : list St) (pokes : list (nat * Z)) (ops : list op) (n : nat),
    let r0 := wf_init (widths d) entries in
    let s := fold_left (run_op d) ops (init_poked d st0 pokes) in
    Forall (fun w => 0 <= w) (widths d) ->
    nth_error (seqs d) k = Some (recorder_leaf getR setR (wf_uniq r0)) ->
    listed_once d k -> ungated d k -> entries <> [] ->
    recS getR k s = Some (wf_getDict r0) ->
    exists dd', recS getR k (clk d n s) = Some dd' /\
      (let r' := {| wf_wires := wf_wires r0; wf_format := wf_format r0; wf_uniq := wf_uniq r0; wf_data := dd' |} in
      decode_clock (fst (wf_wavedrom (widths d) r')) = Some n /\
      length (snd (wf_wavedrom (widths d) r')) = length entries /\
      forall i e, nth_error entries i = Some e ->
        exists rw, nth_error (snd (wf_wavedrom (widths d) r')) i = Some rw
          /\ dict_get dd' (entry_wire e) = Some (samples_of d (propagated d s) (entry_wire e) n)
          /\ decode (nth (entry_wire e) (widths d) 0) rw = Some (samples_of d (propagated d s) (entry_wire e) n)
          /\ length (fst rw) = (n + 2)%nat).
Proof. exact end_to_end_from_powerup_constructor_puts_thm. Qed.

(* ... and over a whole recorder history: a recorder that is fresh at power-up (constructor puts allowed), then ANY
   list of pokes / clk(n) / clear() (History.kop; clk(0) = propagateAll): get_wavedrom of the final recording has a
   clock row of kcount cycles (those since the last clear()) and every row reads back as the reference list kexp of
   C15_kernel_history.  No range assumption: every value recorded anywhere in the history is inside its width by C06 *)
Theorem C15_history_end_to_end_from_powerup :
  forall (St : Type) (getR : St -> dict) (setR : St -> dict -> St),
    (forall st dd, getR (setR st dd) = dd) ->
  forall (d : design St) (k : nat) entries (st0 : list St) (pokes : list (nat * Z)) (ops : list kop),
    let r0 := wf_init (widths d) entries in
    let s0 := init_poked d st0 pokes in
    Forall (fun w => 0 <= w) (widths d) ->
    nth_error (seqs d) k = Some (recorder_leaf getR setR (wf_uniq r0)) ->
    listed_once d k -> ungated d k -> entries <> [] ->
    recS getR k s0 = Some (wf_getDict r0) ->
    exists dd', recS getR k (fold_left (krun getR setR d k) ops s0) = Some dd' /\
      (let r' := {| wf_wires := wf_wires r0; wf_format := wf_format r0; wf_uniq := wf_uniq r0; wf_data := dd' |} in
      decode_clock (fst (wf_wavedrom (widths d) r')) = Some (kcount 0 ops) /\
      length (snd (wf_wavedrom (widths d) r')) = length entries /\
      forall i e, nth_error entries i = Some e ->
        exists rw, nth_error (snd (wf_wavedrom (widths d) r')) i = Some rw
          /\ dict_get dd' (entry_wire e) = Some (kexp getR setR d k (entry_wire e) [] s0 ops)
          /\ decode (nth (entry_wire e) (widths d) 0) rw = Some (kexp getR setR d k (entry_wire e) [] s0 ops)
          /\ length (fst rw) = (kcount 0 ops + 2)%nat).
Proof. exact history_end_to_end_from_powerup_thm. Qed.

(* non-vacuity of the guarded statements: a concrete recorder in a concrete design *)
Example C15_nonvacuous :
  let ws := [8; 1; 8] in
  let entries := [EWire 0; EPort 1; EWire 0; EPort 0; EWire 2] in
  let r := fold_left wf_op [WClock [7; 1; 0]; WClear; WClock [255; 1; 3]; WClock [255; 0; 3]; WClock [16; 0; 3]] (wf_init ws entries) in
  wf_getDict r = [(0%nat, [255; 255; 16]); (1%nat, [1; 0; 0]); (2%nat, [3; 3; 3])] /\
  in_range ws (wf_getDict r) /\
  fst (wf_wavedrom ws r) = [80; 46; 46; 46; 120] /\
  nth_error (snd (wf_wavedrom ws r)) 1 = Some ([120; 49; 48; 46; 120], []) /\
  nth_error (snd (wf_wavedrom ws r)) 3 = Some ([120; 50; 46; 50; 120], [[70; 70]; [49; 48]]).
Proof. exact thm_C15_nonvacuous. Qed.

(* non-vacuity of the kernel-level hypotheses (lens law, recorder leaf, listed_once, ungated) on a concrete design:
   an 8-bit register and a recorder watching its output, its input port and its output again; and the gated variant *)
Example C15_kernel_nonvacuous :
  let d0 : design Z := {| widths := [8; 8; 1]; combs := [];
                          seqs := [{| s_in := [0%nat]; s_out := [1%nat]; s_f := fun (st : Z) ins => (st, [Some (nth 0 ins 0)]) |}];
                          drivers := [{| d_enable := None; d_leaves := [0%nat] |}] |} in
  let entries := [EWire 1; EPort 0; EWire 1] in
  let r0 := wf_init (widths d0) entries in
  let d := with_recorder d0 (wf_uniq r0) 0 None in                  (* recorder in the ungated domain *)
  let dg := with_recorder d0 (wf_uniq r0) 1 (Some 2%nat) in          (* recorder in a domain gated by wire 2 *)
  let st0 : list (Z + dict) := [inl 0; inr (wf_getDict r0)] in
  (forall (st : Z + dict) dd, getR_sum (setR_sum st dd) = dd) /\
  nth_error (seqs d) 1 = Some (recorder_leaf getR_sum setR_sum (wf_uniq r0)) /\
  listed_once d 1 /\ ungated d 1 /\
  recS getR_sum 1 (init d st0) = Some (wf_getDict r0) /\
  recS getR_sum 1 (clk d 3 (poke d (init d st0) 0 77)) = Some [(1%nat, [0; 77; 77]); (0%nat, [77; 77; 77])] /\
  (* gated off: three cycles are simulated (the register follows its input) and nothing is recorded *)
  total (clk dg 3 (poke dg (init dg st0) 0 77)) = 3%nat /\
  rd (vals (clk dg 3 (poke dg (init dg st0) 0 77))) 1 = 77 /\
  recS getR_sum 1 (clk dg 3 (poke dg (init dg st0) 0 77)) = Some [(1%nat, []); (0%nat, [])] /\
  (* gate open on the second call only *)
  recS getR_sum 1 (clk dg 2 (poke dg (clk dg 3 (poke dg (init dg st0) 0 77)) 2 1)) = Some [(1%nat, [77; 77]); (0%nat, [77; 77])].
Proof. exact thm_C15_kernel_nonvacuous. Qed.

(* non-vacuity of the *_from_powerup theorems: the register + recorder design above (register constructor showing 5
   on q); the recorder is still fresh after pokes / propagateAll / clk(0) from power-up, the user pokes 300 into an
   8-bit wire (C06: stored as 44), and a history with a clear() in the middle leaves 3 samples per wire *)
Example C15_powerup_nonvacuous :
  (forall (st : Z + dict) dd, getR_sum (setR_sum st dd) = dd) /\
  Forall (fun w => 0 <= w) (widths pu_d) /\
  nth_error (seqs pu_d) 1 = Some (recorder_leaf getR_sum setR_sum (wf_uniq (wf_init (widths pu_d) pu_entries))) /\
  listed_once pu_d 1 /\ ungated pu_d 1 /\ pu_entries <> [] /\
  recS getR_sum 1 (fold_left (run_op pu_d) [OpPoke 0%nat 300; OpPropagate; OpClk 0] (init pu_d pu_st0))
    = Some (wf_getDict (wf_init (widths pu_d) pu_entries)) /\
  recS getR_sum 1 (fold_left (run_op pu_d) [OpPoke 0%nat 300; OpPropagate; OpClk 0] (init_poked pu_d pu_st0 [(1%nat, 5)]))
    = Some (wf_getDict (wf_init (widths pu_d) pu_entries)) /\
  recS getR_sum 1 (init_poked pu_d pu_st0 [(1%nat, 5)]) = Some (wf_getDict (wf_init (widths pu_d) pu_entries)) /\
  recS getR_sum 1 (fold_left (krun getR_sum setR_sum pu_d 1) [KClk 2; KClear; KPoke 0 300; KClk 3]
                             (init_poked pu_d pu_st0 [(1%nat, 5)]))
    = Some [(1%nat, [0; 44; 44]); (0%nat, [44; 44; 44])] /\
  kcount 0 [KClk 2; KClear; KPoke 0 300; KClk 3] = 3%nat.
Proof. exact pu_hyps. Qed.

Print Assumptions C15_watchlist.
Print Assumptions C15_history.
Print Assumptions C15_one_sample_per_cycle.
Print Assumptions C15_invariant.
Print Assumptions C15_gated_skips.
Print Assumptions C15_hex_label_roundtrip.
Print Assumptions C15_roundtrip.
Print Assumptions C15_roundtrip_unguarded_refuted.
Print Assumptions C15_span.
Print Assumptions C15_wavedrom_decodes.
Print Assumptions C15_clear.
Print Assumptions C15_end_to_end.
Print Assumptions C15_kernel_history.
Print Assumptions C15_rendering_injective.
Print Assumptions C15_end_to_end_from_powerup.
Print Assumptions C15_end_to_end_from_powerup_constructor_puts.
Print Assumptions C15_history_end_to_end_from_powerup.
