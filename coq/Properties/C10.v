(* C10 — A clock domain advances exactly when its enable is active.
   Statements only; proofs are in Proofs/C10/{Domain,Tree,Examples,Hier}.v (on top of Proofs/C05).
   Kernel theorems are about Model/SimKernel.v for EVERY design (arbitrary leaf functions, any number of domains,
   any enable wire — in particular a wire prepared by a register INSIDE the gated domain: the enable is read from
   `vals s`, which no clock function changes during the edge) and every pre-edge state.
   A domain is an entry `drv` of the driver table: drivers d = pre ++ drv :: post.
   The lookup theorems are about the hand model Model/ClockTree.v of getObjectClockDriver / topologicalSort. *)
From V Require Import Base.Bits Gen.WireOps Model.SimKernel Model.ClockTree Spec.C05 Spec.C10 Spec.C10Tree
                      Proofs.C05.Edge Proofs.C10.Domain Proofs.C10.Tree Proofs.C10.Examples Proofs.C10.Hier.
From Coq Require Import Permutation.

(* ---- the per-domain reference: what the edge does to domain drv is a function of drv, the leaf table and the
        PRE-edge state only (Spec.C10.dom_state / dom_value) --------------------------------------------------- *)
Theorem C10_domain_reference :
  forall (St : Type) (d : design St) (s : state St) (pre : list driver) (drv : driver) (post : list driver),
    registered_once d -> drivers d = pre ++ drv :: post ->
    (forall k, In k (d_leaves drv) -> nth_error (sts (clock_drivers d s)) k = dom_state d s drv k) /\
    (forall w, only_from d drv w -> pend s = [] -> (w < length (vals s))%nat ->
               rd (vals (settleAll (clock_drivers d s))) w = dom_value d s drv w).
Proof.
  intros St d s pre drv post Hro Hd.
  exact (conj (fun k => domain_state d s pre drv post k Hro Hd) (fun w Ho Hp Hw => domain_value d s pre drv post w Hro Hd Ho Hp Hw)).
Qed.

(* ---- enable reads 0 before the edge: every leaf state of the domain and every wire prepared only from the
        domain is unchanged by clock_drivers + settleAll ... ---------------------------------------------------- *)
Theorem C10_gated_holds :
  forall (St : Type) (d : design St) (s : state St) (pre : list driver) (drv : driver) (post : list driver),
    registered_once d -> drivers d = pre ++ drv :: post -> enabled (vals s) drv = false ->
    (forall k, In k (d_leaves drv) -> nth_error (sts (clock_drivers d s)) k = nth_error (sts s) k) /\
    (pend s = [] -> forall w, only_from d drv w -> rd (vals (settleAll (clock_drivers d s))) w = rd (vals s) w).
Proof. exact @gated_holds. Qed.

(* ... and by the whole cycle, for wires that no combinational leaf writes (register outputs) *)
Theorem C10_gated_holds_cycle :
  forall (St : Type) (d : design St) (s : state St) (pre : list driver) (drv : driver) (post : list driver),
    registered_once d -> drivers d = pre ++ drv :: post -> enabled (vals s) drv = false ->
    (forall k, In k (d_leaves drv) -> nth_error (sts (clk_cycle d s)) k = nth_error (sts s) k) /\
    (pend s = [] -> forall w, only_from d drv w -> (forall c, In c (combs d) -> ~ In w (c_out c)) ->
       rd (vals (clk_cycle d s)) w = rd (vals s) w).
Proof. exact @gated_holds_cycle. Qed.

(* ---- enable reads non-zero: the edge (whole state, hence the domain's) is that of the same design with this
        driver ungated (d_enable := None) ---------------------------------------------------------------------- *)
Theorem C10_enabled_same :
  forall (St : Type) (d : design St) (s : state St) (pre : list driver) (drv : driver) (post : list driver),
    drivers d = pre ++ drv :: post -> enabled (vals s) drv = true ->
    clock_drivers (with_drivers d (pre ++ ungate drv :: post)) s = clock_drivers d s /\
    clk_cycle (with_drivers d (pre ++ ungate drv :: post)) s = clk_cycle d s.
Proof. exact @enabled_same. Qed.

(* ---- frame: the same domain inside two designs sharing the leaf table but with ANY other domains around it
        (other enables, other leaves, other order) ends the edge with the same leaf states and the same values
        on the wires prepared only from it --------------------------------------------------------------------- *)
Theorem C10_other_domains :
  forall (St : Type) (d : design St) (ds2 : list driver) (s : state St)
         (pre1 post1 pre2 post2 : list driver) (drv : driver),
    registered_once d -> registered_once (with_drivers d ds2) ->
    drivers d = pre1 ++ drv :: post1 -> ds2 = pre2 ++ drv :: post2 ->
    (forall k, In k (d_leaves drv) ->
       nth_error (sts (clock_drivers (with_drivers d ds2) s)) k = nth_error (sts (clock_drivers d s)) k) /\
    (pend s = [] -> forall w, only_from d drv w -> only_from (with_drivers d ds2) drv w ->
       rd (vals (settleAll (clock_drivers (with_drivers d ds2) s))) w = rd (vals (settleAll (clock_drivers d s))) w).
Proof. exact @other_domains. Qed.

(* ---- nearest ancestor: getObjectClockDriver returns the driver of the closest ancestor (the object itself
        included) that has one, and raises (None) exactly when no ancestor has one ------------------------------ *)
Theorem C10_nearest_ancestor :
  forall (D : Type) (o : obj D),
    getObjectClockDriver o = nearest o /\
    (forall x, getObjectClockDriver o = Some x <->
       exists i a, nth_error (ancestors o) i = Some a /\ o_drv a = Some x /\
                   forall j b, (j < i)%nat -> nth_error (ancestors o) j = Some b -> o_drv b = None) /\
    (getObjectClockDriver o = None <-> forall a, In a (ancestors o) -> o_drv a = None).
Proof. intros D o. exact (conj (lookup_nearest o) (conj (nearest_ancestor o) (lookup_error o))). Qed.

(* walking up from every leaf = resolving the driver top-down as an inherited attribute of the hierarchy *)
Theorem C10_inherited_topdown :
  forall (D : Type) (t : htree D) (parent : option (obj D)),
    map (fun p => (fst p, getObjectClockDriver (snd p))) (leaves_of t parent) =
    leaves_inherited t (match parent with None => None | Some p => getObjectClockDriver p end).
Proof. exact @leaves_lookup. Qed.

(* topologicalSort's driver table: distinct drivers, every clockable leaf exactly once, under its nearest driver
   (this is the `registered_once` hypothesis of the kernel theorems); it fails exactly when some clockable leaf
   has no driver above it *)
Theorem C10_buckets_partition :
  forall (t : htree nat) (B : list (nat * list nat)),
    clock_buckets t = Some B ->
    NoDup (map fst B) /\ NoDup (flat_map snd B) /\ Permutation (flat_map snd B) (clockable_ids (numbered_leaves t)) /\
    (forall i o, nth_error (leaves_of t None) i = Some (true, o) ->
       exists drv ls, getObjectClockDriver o = Some drv /\ In (drv, ls) B /\ In i ls).
Proof. exact buckets_partition. Qed.

Theorem C10_buckets_error :
  forall (t : htree nat),
    clock_buckets t = None <->
    exists i o, nth_error (leaves_of t None) i = Some (true, o) /\ getObjectClockDriver o = None.
Proof. exact buckets_error. Qed.

(* ---- END TO END: hierarchy -> driver table -> gating -------------------------------------------------------------
   The kernel's driver table is the bucket table B of the hierarchy t (Proofs/C10/Hier.v: drivers_of en idx B, one
   kernel driver per bucket: enable wire `en x` of driver x, leaves `map idx ls`), where idx renumbers allLeaves
   positions into the kernel's leaf table and is injective on the registered leaves.  Then `registered_once` is no
   longer a hypothesis ... *)
Theorem C10_buckets_registered_once :
  forall (St : Type) (d : design St) (t : htree nat) (B : list (nat * list nat))
         (en : nat -> option nat) (idx : nat -> nat),
    clock_buckets t = Some B -> inj_on idx (flat_map snd B) -> drivers d = drivers_of en idx B ->
    registered_once d.
Proof. exact @buckets_registered_once. Qed.

(* ... and a clockable leaf (allLeaves position i, object o) whose NEAREST-ANCESTOR driver is x keeps its state across
   the edge and across the whole cycle whenever x's enable wire reads 0 before the edge; so does every wire prepared
   only by leaves whose nearest-ancestor driver is x (through the cycle: if no combinational leaf writes it) *)
Theorem C10_hierarchy_gated_holds :
  forall (St : Type) (d : design St) (s : state St) (t : htree nat) (B : list (nat * list nat))
         (en : nat -> option nat) (idx : nat -> nat) (i : nat) (o : obj nat) (x we : nat),
    clock_buckets t = Some B -> inj_on idx (flat_map snd B) -> drivers d = drivers_of en idx B ->
    nth_error (leaves_of t None) i = Some (true, o) -> getObjectClockDriver o = Some x ->
    en x = Some we -> rd (vals s) we = 0 ->
    nth_error (sts (clock_drivers d s)) (idx i) = nth_error (sts s) (idx i) /\
    nth_error (sts (clk_cycle d s)) (idx i) = nth_error (sts s) (idx i) /\
    (pend s = [] -> forall w, only_from_nearest d t idx x w ->
       rd (vals (settleAll (clock_drivers d s))) w = rd (vals s) w /\
       ((forall c, In c (combs d) -> ~ In w (c_out c)) -> rd (vals (clk_cycle d s)) w = rd (vals s) w)).
Proof. exact @hierarchy_gated_holds. Qed.

(* companion: x's enable wire reads non-zero before the edge => edge and cycle (whole state) are those of the same
   design with driver x ungated (holds for any table B) *)
Theorem C10_hierarchy_enabled_same :
  forall (St : Type) (d : design St) (s : state St) (B : list (nat * list nat))
         (en : nat -> option nat) (idx : nat -> nat) (x we : nat),
    drivers d = drivers_of en idx B -> en x = Some we -> rd (vals s) we <> 0 ->
    clock_drivers (with_drivers d (drivers_of (ungate_at x en) idx B)) s = clock_drivers d s /\
    clk_cycle (with_drivers d (drivers_of (ungate_at x en) idx B)) s = clk_cycle d s.
Proof. exact @hierarchy_enabled_same. Qed.

(* ---- non-vacuity ------------------------------------------------------------------------------------------------ *)
(* a domain whose enable is the output of a register inside it: advances once, clears its own enable, then stays
   frozen while the free-running domain keeps counting *)
Example C10_self_gating_domain :
  registered_once ex_self /\ drivers ex_self = [] ++ ex_gate :: [ex_free] /\
  only_from ex_self ex_gate 0%nat /\ only_from ex_self ex_gate 1%nat /\ only_from ex_self ex_free 2%nat /\
  vals (cycles ex_self 1 ex_self_s0) = [0; 1; 1] /\ vals (cycles ex_self 4 ex_self_s0) = [0; 1; 4] /\
  sts (cycles ex_self 4 ex_self_s0) = [0; 1; 4] /\ total (cycles ex_self 4 ex_self_s0) = 4%nat.
Proof.
  exact (conj ex_self_registered_once (conj eq_refl (conj (proj1 ex_self_only_from) (conj (proj1 (proj2 ex_self_only_from))
        (conj (proj2 (proj2 ex_self_only_from)) ex_self_runs))))).
Qed.

Example C10_hypotheses_satisfiable :
  enabled (vals ex_self_s0) ex_gate = true /\ enabled (vals (cycles ex_self 1 ex_self_s0)) ex_gate = false /\
  registered_once (with_drivers ex_self ex_other_table) /\
  ex_other_table = [ {| d_enable := Some 1%nat; d_leaves := [2%nat] |} ] ++ ex_gate :: [] /\
  only_from (with_drivers ex_self ex_other_table) ex_gate 0%nat /\ only_from (with_drivers ex_self ex_other_table) ex_gate 1%nat.
Proof. exact (conj (proj1 ex_self_enable_values) (conj (proj2 ex_self_enable_values) ex_other_table_ok)). Qed.

Example C10_tree_example :
  clock_buckets ex_tree = Some [(9%nat, [0%nat; 2%nat]); (7%nat, [3%nat; 4%nat])] /\
  clock_buckets (HNode None false [HNode None true []]) = None /\
  clock_buckets (HNode None false [HNode None false []]) = Some [].
Proof. exact (conj ex_tree_buckets ex_tree_no_driver). Qed.

(* the hypotheses of the end-to-end theorems on ex_tree: leaf 2 sits two levels below sub-block A (driver 9, enable =
   wire 4); with the enable at 0 the sub-domain is frozen while the top domain counts, with 1 everything counts *)
Example C10_hierarchy_example :
  (clock_buckets ex_tree = Some ex_h_B /\ inj_on ex_h_idx (flat_map snd ex_h_B) /\
   drivers ex_h = drivers_of ex_h_en ex_h_idx ex_h_B /\
   (exists o, nth_error (leaves_of ex_tree None) 2 = Some (true, o) /\ getObjectClockDriver o = Some 9%nat) /\
   ex_h_en 9%nat = Some 4%nat /\ rd (vals ex_h_s0) 4 = 0 /\ rd (vals ex_h_s1) 4 <> 0 /\
   only_from_nearest ex_h ex_tree ex_h_idx 9%nat 1%nat /\ registered_once ex_h) /\
  vals (cycles ex_h 3 ex_h_s0) = [0; 0; 3; 3; 0] /\ sts (cycles ex_h 3 ex_h_s0) = [0; 0; 3; 3] /\
  vals (cycles ex_h 3 ex_h_s1) = [3; 3; 3; 3; 1].
Proof. exact (conj ex_h_hyps ex_h_runs). Qed.

Print Assumptions C10_domain_reference.
Print Assumptions C10_gated_holds.
Print Assumptions C10_gated_holds_cycle.
Print Assumptions C10_enabled_same.
Print Assumptions C10_other_domains.
Print Assumptions C10_nearest_ancestor.
Print Assumptions C10_inherited_topdown.
Print Assumptions C10_buckets_partition.
Print Assumptions C10_buckets_error.
Print Assumptions C10_buckets_registered_once.
Print Assumptions C10_hierarchy_gated_holds.
Print Assumptions C10_hierarchy_enabled_same.
