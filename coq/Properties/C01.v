(* C01 — Generated Verilog behaves like the simulated structural design.
   Statements only (proofs: Proofs/C01/).  `X_propagate` / `Reg_clock` are REGENERATED from /repo on every run;
   `inl_*` / `body_reg_proc` (Model/Inline.v) are the emitter models, matched syntactically against the elaborated text of
   every generated design by the check; `assign_value` / `exec` / `apply_nbas` are the IEEE-1364 semantics of Model/VSem.v.
   okn env n : net n has positive width and holds a value inside its width.  val n := getv env (fst n). *)
From V Require Import Base.Bits Gen.WireOps Gen.Helpers Gen.Prims Gen.Seq Model.VSyntax Model.VSem Model.Inline
  Proofs.C01.InlineSound Proofs.C01.InlineSound2 Proofs.C01.RegSound Proofs.C01.PowerUp.

Notation val env n := (getv env (fst n)).

Theorem C01_inline_buf_sound : forall env r a, okn env a -> 0 < snd r ->
  forall l e, inl_buf r a = [(l, e)] -> assign_value env l e = Buf_propagate (snd r) (val env a).
Proof. exact inl_buf_sound. Qed.
Theorem C01_inline_zeroextend_sound : forall env r a, okn env a -> 0 < snd r ->
  forall l e, inl_buf r a = [(l, e)] -> assign_value env l e = ZeroExtend_propagate (snd r) (val env a).
Proof. exact inl_zeroextend_sound. Qed.
Theorem C01_inline_not_sound : forall env r a, okn env a -> 0 < snd r ->
  forall l e, inl_not r a = [(l, e)] -> assign_value env l e = Not_propagate (snd r) (val env a).
Proof. exact inl_not_sound. Qed.
Theorem C01_inline_and2_sound : forall env r a b, okn env a -> okn env b -> 0 < snd r ->
  forall l e, inl_bin BAnd r a b = [(l, e)] -> assign_value env l e = And2_propagate (snd r) (val env a) (val env b).
Proof. exact inl_and2_sound. Qed.
Theorem C01_inline_or2_sound : forall env r a b, okn env a -> okn env b -> 0 < snd r ->
  forall l e, inl_bin BOr r a b = [(l, e)] -> assign_value env l e = Or2_propagate (snd r) (val env a) (val env b).
Proof. exact inl_or2_sound. Qed.
Theorem C01_inline_mul_sound : forall env r a b, okn env a -> okn env b -> 0 < snd r ->
  forall l e, inl_bin BMul r a b = [(l, e)] -> assign_value env l e = Mul_propagate (snd r) (val env a) (val env b).
Proof. exact inl_mul_sound. Qed.
Theorem C01_inline_sub_sound : forall env r a b, okn env a -> okn env b -> 0 < snd r ->
  forall l e, inl_bin BSub r a b = [(l, e)] -> assign_value env l e = Sub_propagate (snd r) (val env a) (val env b).
Proof. exact inl_sub_sound. Qed.
Theorem C01_inline_addci_sound : forall env r a b ci, okn env a -> okn env b -> okn env ci -> 0 < snd r ->
  forall l e, inl_addci r a b ci = [(l, e)] ->
  assign_value env l e = AddCarryIn_propagate (snd r) (val env a) (val env b) (val env ci).
Proof. exact inl_addci_sound. Qed.
Theorem C01_inline_shl_sound : forall env r a n, okn env a -> 0 < snd r -> 0 <= n < 2 ^ 31 ->
  forall l e, inl_shl r a n = [(l, e)] -> assign_value env l e = ShiftLeftConstant_propagate (snd r) n (val env a).
Proof. exact inl_shl_sound. Qed.
Theorem C01_inline_shr_sound : forall env r a n, okn env a -> 0 < snd r -> 0 <= n < 2 ^ 31 ->
  forall l e, inl_shr r a n = [(l, e)] -> assign_value env l e = ShiftRightConstant_propagate (snd r) n (val env a).
Proof. exact inl_shr_sound. Qed.
(* EVERY select width: the emitted condition is `sel & 1`, the bit Mux2.propagate tests (finding mux2-wide-select repaired) *)
Theorem C01_inline_mux2_sound : forall env r sel s0 s1, okn env sel -> okn env s0 -> okn env s1 -> 0 < snd r ->
  forall l e, inl_mux2 r sel s0 s1 = [(l, e)] ->
  assign_value env l e = Mux2_propagate (snd r) (val env sel) (val env s0) (val env s1).
Proof. exact inl_mux2_sound. Qed.
Theorem C01_inline_range_sound : forall env r a hi lo, okn env a -> 0 < snd r -> 0 <= lo <= hi ->
  forall l e, inl_range r a hi lo = [(l, e)] -> assign_value env l e = Range_propagate (snd r) hi lo (val env a).
Proof. exact inl_range_sound. Qed.
Theorem C01_inline_bit_sound : forall env r a k, okn env a -> 0 < snd r -> 0 <= k < snd a -> k < 2 ^ 31 ->
  forall l e, inl_bit r a k = [(l, e)] -> assign_value env l e = Bit_propagate (snd r) k (val env a).
Proof. exact inl_bit_sound. Qed.
Theorem C01_inline_constant_sound : forall env r v, 0 < snd r -> - 2 ^ 31 < v < 2 ^ 31 ->
  forall l e, inl_constant r v = [(l, e)] -> lwidth l = snd r /\ assign_value env l e = Constant_propagate (snd r) v.
Proof. exact inl_constant_sound. Qed.
(* division and modulo: every input except the documented nondeterministic one (divisor 0) *)
Theorem C01_inline_div_sound : forall env r a b rnd, okn env a -> okn env b -> 0 < snd r -> val env b <> 0 ->
  forall l e, inl_bin BDiv r a b = [(l, e)] -> assign_value env l e = Div_propagate (snd r) rnd (val env a) (val env b).
Proof. exact inl_div_sound. Qed.
Theorem C01_inline_mod_sound : forall env r a b rnd, okn env a -> okn env b -> 0 < snd r -> val env b <> 0 ->
  forall l e, inl_bin BMod r a b = [(l, e)] -> assign_value env l e = Mod_propagate (snd r) rnd (val env a) (val env b).
Proof. exact inl_mod_sound. Qed.
Theorem C01_inline_signedmul_sound : forall env r a b, okn env a -> okn env b -> 0 < snd r ->
  forall l e, inl_smul r a b = [(l, e)] ->
  assign_value env l e = SignedMul_propagate (snd a) (snd b) (snd r) (val env a) (val env b).
Proof. exact inl_smul_sound. Qed.

(* sign extension to ANY result width (a result not wider than the operand is emitted as `assign r = a;` since the repair of
   the C03 finding signextend-replication-count; the top bit of a scalar operand is written as the bare name) *)
Theorem C01_inline_signextend_sound : forall env r a, okn env a -> 0 < snd r -> snd a - 1 < 2 ^ 31 ->
  forall l e, inl_signextend r a = [(l, e)] -> assign_value env l e = SignExtend_propagate (snd a) (snd r) (val env a).
Proof. exact inl_signextend_sound. Qed.
(* concatenation of ANY number of operands (none: `assign r = 0;`) of ANY widths (both MSBF and LSBF blocks: same emitter, same propagate) *)
Theorem C01_inline_concat_sound : forall env r ins, Forall (okn env) ins -> 0 < snd r ->
  forall l e, inl_concat r ins = [(l, e)] ->
  assign_value env l e = ConcatenateMSBF_propagate (snd r) (map (fun n => (snd n, val env n)) ins) /\
  assign_value env l e = ConcatenateLSBF_propagate (snd r) (map (fun n => (snd n, val env n)) ins).
Proof. exact inl_concat_sound. Qed.
Theorem C01_inline_repeat_sound : forall env r i, okn env i -> snd i = 1 -> 0 < snd r ->
  forall l e, inl_repeat r i = [(l, e)] -> assign_value env l e = Repeat_propagate (snd r) (val env i).
Proof. exact inl_repeat_sound. Qed.

(* n-ary bitwise chains of ANY arity >= 1 and ANY operand widths: the assign computes the bitwise fold (the simulator builds
   And/Or/Xor/Nor/Nand2/Nor2/Xor2 structurally; that those ladders compute the same fold is C08) *)
Theorem C01_inline_nary_sound : forall env o r x t, bitop o = true -> okn env x -> Forall (okn env) t -> 0 < snd r ->
  forall l e, inl_nary o r (x :: t) = [(l, e)] ->
  assign_value env l e = trunc (snd r) (fold_left (fun acc n => bop o acc (val env n)) t (val env x)).
Proof. exact inl_nary_sound. Qed.
Theorem C01_inline_nnary_sound : forall env o r x t, bitop o = true -> okn env x -> Forall (okn env) t -> 0 < snd r ->
  forall l e, inl_nnary o r (x :: t) = [(l, e)] ->
  assign_value env l e = trunc (snd r) (Z.lnot (fold_left (fun acc n => bop o acc (val env n)) t (val env x))).
Proof. exact inl_nnary_sound. Qed.
Theorem C01_inline_equal_sound : forall env r a b, okn env a -> okn env b -> 0 < snd r ->
  forall l e, inl_equal r a b = [(l, e)] -> assign_value env l e = b2z (val env a =? val env b).
Proof. exact inl_equal_sound. Qed.
(* guard: 0 <= K < 2^31 on the PRINTED constant; the repaired emitter prints K mod 2^w: see C01_inline_equalconst_masked_sound *)
Theorem C01_inline_equalconst_sound : forall env r a v, okn env a -> 0 < snd r -> 0 <= v < 2 ^ 31 ->
  forall l e, inl_equalconst r a v = [(l, e)] -> assign_value env l e = b2z (val env a =? v).
Proof. exact inl_equalconst_sound. Qed.
(* the constant masked to the operand's width (what the simulated Minterm network compares with, and what the repaired emitter prints):
   EVERY integer K; the only guard is that the literal fits 32 bits signed, i.e. operands up to 31 bits *)
Theorem C01_inline_equalconst_masked_sound : forall env r a K, okn env a -> 0 < snd r -> snd a <= 31 ->
  forall l e, inl_equalconst r a (K mod 2 ^ snd a) = [(l, e)] -> assign_value env l e = b2z (val env a =? K mod 2 ^ snd a).
Proof. exact inl_equalconst_masked_sound. Qed.

(* BitsLSBF / BitsMSBF: the assign emitted for listed wire k stores what propagate() stores into that wire, every k *)
Theorem C01_inline_bits_sound : forall env a b k, okn env a -> 0 < snd b -> 0 <= k < snd a -> k < 2 ^ 31 ->
  assign_value env (whole b) (RBit (fst a) (snd a) (RNum k)) = Wire_put (snd b) (Z.land (py_shr (val env a) k) 1).
Proof. exact inl_bits_sound. Qed.
Theorem C01_bits_propagate_nth : forall wa lw v k, (k < wa)%nat ->
  nth k (BitsLSBF_propagate (Z.of_nat wa) lw v) 0 = Wire_put (nth k lw 0) (Z.land (py_shr v (Z.of_nat k)) 1) /\
  nth k (BitsMSBF_propagate (Z.of_nat wa) lw v) 0 = Wire_put (nth k lw 0) (Z.land (py_shr v (Z.of_nat k)) 1).
Proof. exact bits_propagate_nth. Qed.

(* BodyReg vs Reg.clock over EVERY input history (data, enable and reset of ANY width, |reset_value| < 2^31; the repaired BodyReg
   loads when e != 0, as Reg.clock does): the value of rq after each edge equals the value Reg.clock prepares for q, provided rq
   starts equal to the stored value truncated (which `reg rq = reset_value` establishes in Verilog) *)
Theorem C01_reg_sound : forall w wd we wr has_e has_r rv ins st rqv,
  0 < w -> 0 < wd -> 0 < we -> 0 < wr -> - 2 ^ 31 < rv < 2 ^ 31 -> Forall (in_ok wd we wr) ins ->
  rqv = trunc w (Reg_s_value st) ->
  vreg_traj w wd we wr has_e has_r rv rqv ins = sreg_traj w has_e has_r rv st ins.
Proof. exact reg_history. Qed.

(* ---------------- power-up: the emitted `reg [w-1:0] rq = rv; assign q = rq;` shows trunc w rv on q as soon as the assign has settled, before
   any clock edge — what Reg.__init__ puts on q since /repo 1f058fe (value := reset_value; q.put(value)); EVERY width and reset value
   (the whole-design statement against the kernel's init_poked is C01_powerup_compose in Properties/C01Compose.v) *)
Theorem C01_reg_powerup_shows_reset : forall w rv, 0 < w ->
  settle (reg_powerup_flat w rv) (settle_fuel (reg_powerup_flat w rv)) (power_up (reg_powerup_flat w rv)) = ([trunc w rv; trunc w rv], true).
Proof. exact reg_powerup_shows_reset. Qed.

(* non-vacuity of the hypotheses *)
Example C01_nonvacuous : okn [5; 12; 0] (0%nat, 3) /\ okn [5; 12; 0] (1%nat, 4) /\
  assign_value [5; 12; 0] (RLId 2 4) (RBin BSub (rid (0%nat, 3)) (rid (1%nat, 4))) = 9.
Proof. unfold okn; cbn [fst snd getv nth]. repeat split; try lia. Qed.

Print Assumptions C01_inline_buf_sound.
Print Assumptions C01_inline_not_sound.
Print Assumptions C01_inline_and2_sound.
Print Assumptions C01_inline_or2_sound.
Print Assumptions C01_inline_mul_sound.
Print Assumptions C01_inline_sub_sound.
Print Assumptions C01_inline_addci_sound.
Print Assumptions C01_inline_shl_sound.
Print Assumptions C01_inline_shr_sound.
Print Assumptions C01_inline_mux2_sound.
Print Assumptions C01_inline_range_sound.
Print Assumptions C01_inline_bit_sound.
Print Assumptions C01_inline_constant_sound.
Print Assumptions C01_inline_div_sound.
Print Assumptions C01_inline_mod_sound.
Print Assumptions C01_inline_signedmul_sound.
Print Assumptions C01_inline_signextend_sound.
Print Assumptions C01_inline_concat_sound.
Print Assumptions C01_inline_repeat_sound.
Print Assumptions C01_inline_nary_sound.
Print Assumptions C01_inline_nnary_sound.
Print Assumptions C01_inline_equal_sound.
Print Assumptions C01_inline_equalconst_sound.
Print Assumptions C01_inline_equalconst_masked_sound.
Print Assumptions C01_inline_bits_sound.
Print Assumptions C01_bits_propagate_nth.
Print Assumptions C01_reg_sound.
Print Assumptions C01_reg_powerup_shows_reset.
