(* C05 — Clock edges are atomic: every sequential block sees pre-edge values.
   Statements only; proofs are in Proofs/C05/{ListAux,Edge,Split,Examples,Sorted}.v (and Proofs/C04/Compose.v).
   All theorems are about Model/SimKernel.v (the simulator kernel: Simulator._clk_cycle / clk, Wire.prepare /
   settleAll) for EVERY design: arbitrary leaf functions, arbitrary widths, arbitrary number of leaves and
   drivers, arbitrary pre-edge state.  The meaning (snapshot-then-apply reference, re-scheduling, side conditions)
   is in Spec/C05.v. *)
From V Require Import Model.Sort Spec.C04 Proofs.C04.Compose.   (* before Spec.C05: `topo` below is Spec.C05.topo *)
From V Require Import Base.Bits Gen.WireOps Model.SimKernel Spec.C05
                      Proofs.C05.ListAux Proofs.C05.Edge Proofs.C05.Split Proofs.C05.Examples Proofs.C05.Sorted Proofs.C05.SequenceBlock.
From V Require Import Gen.Helpers Gen.Seq.

(* ---- (1) the post-edge state does not depend on the evaluation order of the sequential blocks ----------------
   ds' = the same drivers in another (dict) order, each with its clockables in another order.  If every wire is
   the out-port of at most one sequential leaf and every leaf is registered with one driver once, then ANY number
   of cycles gives the identical state: all wire values, all leaf states (compared by leaf identity), pending
   list and cycle counter. *)
Theorem C05_order_independent :
  forall (St : Type) (d : design St) (ds' : list driver) (n : nat) (s : state St),
    single_writer d -> registered_once d -> resched (drivers d) ds' ->
    clk (with_drivers d ds') n s = clk d n s.
Proof. exact @clk_resched. Qed.

Theorem C05_order_independent_cycle :
  forall (St : Type) (d : design St) (ds' : list driver) (s : state St),
    single_writer d -> registered_once d -> resched (drivers d) ds' ->
    clk_cycle (with_drivers d ds') s = clk_cycle d s.
Proof. exact @cycle_resched. Qed.

(* ... not even on driver boundaries: any interleaving ks' of the leaves active at this edge *)
Theorem C05_any_interleaving :
  forall (St : Type) (d : design St) (s : state St) (ks' : list nat),
    single_writer d -> registered_once d -> Permutation (active d (vals s)) ks' ->
    settleAll (fold_left (clock1 d) ks' s) = settleAll (clock_drivers d s).
Proof. exact @edge_any_order. Qed.

(* ---- (2) every clock function was applied to the values that held BEFORE the edge ---------------------------
   the kernel's cycle IS the reference cycle that evaluates every active leaf on the frozen pre-edge snapshot
   (wire values and own state) and then applies all updates together *)
Theorem C05_pre_edge_values :
  forall (St : Type) (d : design St) (s : state St),
    registered_once d -> clk_cycle d s = ref_cycle d s.
Proof. exact @cycle_ref. Qed.

Theorem C05_pre_edge_values_clk :
  forall (St : Type) (d : design St) (n : nat) (s : state St),
    registered_once d -> clk d n s = ref_clk d n s.
Proof. exact @clk_ref. Qed.

(* the same fact read off an instrumented run: erasing the log gives the kernel's edge, and every logged visit
   (leaf k, own state st, inputs ins) was given the PRE-edge state of k and the PRE-edge values of k's in-ports *)
Theorem C05_pre_edge_inputs :
  forall (St : Type) (d : design St) (s : state St),
    fst (clock_drivers_log d s) = clock_drivers d s /\
    (registered_once d ->
     forall k st ins, In (k, st, ins) (snd (clock_drivers_log d s)) ->
       nth_error (sts s) k = Some st /\
       exists l, nth_error (seqs d) k = Some l /\ ins = map (rd (vals s)) (s_in l)).
Proof. intros St d s. exact (conj (clock_drivers_log_fst d s) (clock_drivers_log_ok d s)). Qed.

(* clock functions never change a wire value: whatever runs later in the same edge (other leaves, other drivers'
   enable tests) reads pre-edge values *)
Theorem C05_values_frozen_during_edge :
  forall (St : Type) (d : design St) (s : state St) (ks : list nat),
    vals (fold_left (clock1 d) ks s) = vals s /\ vals (clock_drivers d s) = vals s.
Proof. intros St d s ks. exact (conj (fold_clock1_vals d ks s) (clock_drivers_vals d s)). Qed.

(* ---- (3) the prepared list is drained at every edge; updates become visible together; none lost / carried over *)
Theorem C05_prepared_drained :
  forall (St : Type) (d : design St) (s : state St),
    pend (clk_cycle d s) = [] /\
    (forall n, pend s = [] \/ (0 < n)%nat -> pend (clk d n s) = []) /\
    (forall w, (w < length (vals s))%nat ->
       rd (vals (settleAll (clock_drivers d s))) w =
       match last_for w (pend (clock_drivers d s)) with Some x => x | None => rd (vals s) w end).
Proof. intros St d s. exact (conj (pend_cycle d s) (conj (fun n => pend_clk d n s) (settled_value d s))). Qed.

(* what was pending after the clock functions ran is exactly what the snapshot computation prepares *)
Theorem C05_prepared_is_snapshot :
  forall (St : Type) (d : design St) (s : state St),
    registered_once d ->
    pend (clock_drivers d s) = pend s ++ flat_map (snap_upd d s) (active d (vals s)).
Proof. exact @pend_edge. Qed.

(* under the single-driver discipline every prepared value IS the post-edge value of its wire (none lost) ... *)
Theorem C05_none_lost :
  forall (St : Type) (d : design St) (s : state St) (w : nat) (v : Z),
    single_writer d -> registered_once d -> outs_nodup d -> pend s = [] ->
    (w < length (vals s))%nat ->
    In (w, v) (pend (clock_drivers d s)) -> rd (vals (settleAll (clock_drivers d s))) w = v.
Proof. exact @none_lost. Qed.

(* ... and a wire that no active leaf prepared at THIS edge keeps its value (nothing carried over) *)
Theorem C05_nothing_carried_over :
  forall (St : Type) (d : design St) (s : state St) (w : nat),
    pend s = [] -> registered_once d ->
    ~ In w (map fst (flat_map (snap_upd d s) (active d (vals s)))) ->
    rd (vals (settleAll (clock_drivers d s))) w = rd (vals s) w.
Proof. exact @untouched_kept. Qed.

(* ---- (4) clk(m+n) = clk(n) after clk(m) ------------------------------------------------------------------------
   clk() starts with an extra propagateAll; the split is invisible exactly when that pass changes nothing on a
   state that a propagateAll produced.  Proved for every design whose combinational evaluation list is in
   dependency order (Spec.C05.topo: no leaf reads a wire written by itself or a later leaf; no two leaves write
   the same wire).  Leaves are stateless functions with possibly conditionally-written outputs (Latch is covered
   as such); AsynchronousMemory, whose propagate() mutates its own array, is not expressible as a cleaf and is
   EXCLUDED. *)
Theorem C05_propagateAll_idempotent :
  forall (St : Type) (d : design St) (v : list Z),
    topo (combs d) -> propagateAll d (propagateAll d v) = propagateAll d v.
Proof. exact @propagateAll_idem. Qed.

Theorem C05_clk_split :
  forall (St : Type) (d : design St) (m n : nat) (s : state St),
    topo (combs d) -> clk d (m + n) s = clk d n (clk d m s).
Proof. exact @clk_split. Qed.

Theorem C05_clk_split_idem :
  forall (St : Type) (d : design St) (m n : nat) (s : state St),
    (forall v, propagateAll d (propagateAll d v) = propagateAll d v) -> clk d (m + n) s = clk d n (clk d m s).
Proof. exact @clk_split_idem. Qed.

(* advancing n cycles in one call = n single-cycle calls *)
Theorem C05_clk_single_steps :
  forall (St : Type) (d : design St) (n : nat) (s : state St),
    topo (combs d) -> (0 < n)%nat -> clk d n s = clk1_times d n s.
Proof. exact @clk_as_singles. Qed.

(* ---- (4') composition with C04 (added in session 5): the guard `topo` is what the topological sorter establishes --
   C04's guard (Spec.C04: `ordered` = every leaf strictly after the leaves that feed it, `single_driver` = NoDup of
   all out-ports) implies `topo`; conversely `topo` implies `ordered` *)
Theorem C05_topo_of_ordered : forall cs, ordered cs -> single_driver cs -> topo cs.
Proof. exact topo_of_ordered_thm. Qed.

Theorem C05_ordered_of_topo : forall cs, topo cs -> ordered cs.
Proof. exact ordered_of_topo_thm. Qed.

(* so for a design whose combinational list is WHATEVER the model sorter (Model/Sort.v, C04) returned for its
   instantiation order (succ represents the wire dependencies of the leaves; one driver per wire), no order
   hypothesis is left: one more propagateAll changes nothing, clk(m+n) = clk n after clk m, clk n = n single steps *)
Theorem C05_propagateAll_idempotent_sorted :
  forall (St : Type) (d : design St) succ K l (v : list Z),
  represents (combs d) succ -> single_driver (combs d) ->
  closed succ (seq 0 (length (combs d))) ->
  sort_fuel succ K (seq 0 (length (combs d))) = Sorted l ->
  let d' := with_combs d (reorder (combs d) l) in
  propagateAll d' (propagateAll d' v) = propagateAll d' v.
Proof. exact propagateAll_idempotent_sorted_thm. Qed.

Theorem C05_clk_split_sorted :
  forall (St : Type) (d : design St) succ K l (m n : nat) (s : state St),
  represents (combs d) succ -> single_driver (combs d) ->
  closed succ (seq 0 (length (combs d))) ->
  sort_fuel succ K (seq 0 (length (combs d))) = Sorted l ->
  let d' := with_combs d (reorder (combs d) l) in
  clk d' (m + n) s = clk d' n (clk d' m s).
Proof. exact clk_split_sorted_thm. Qed.

Theorem C05_clk_single_steps_sorted :
  forall (St : Type) (d : design St) succ K l (n : nat) (s : state St),
  represents (combs d) succ -> single_driver (combs d) ->
  closed succ (seq 0 (length (combs d))) ->
  sort_fuel succ K (seq 0 (length (combs d))) = Sorted l ->
  (0 < n)%nat ->
  let d' := with_combs d (reorder (combs d) l) in
  clk d' n s = clk1_times d' n s.
Proof. exact clk_single_steps_sorted_thm. Qed.

(* the guards are necessary *)
Theorem C05_clk_split_unguarded_refuted : exists (d : design unit) s, clk d (1 + 1) s <> clk d 1 (clk d 1 s).
Proof. exact split_needs_guard. Qed.

Theorem C05_order_without_single_writer_refuted :
  exists (d : design Z) ds' s, registered_once d /\ resched (drivers d) ds' /\
                               clk_cycle (with_drivers d ds') s <> clk_cycle d s.
Proof. exact order_needs_single_writer. Qed.

(* ---- non-vacuity: concrete designs satisfying the hypotheses ------------------------------------------------- *)
Example C05_hyps_satisfiable :
  single_writer ex_swap /\ registered_once ex_swap /\ outs_nodup ex_swap /\
  resched (drivers ex_swap) ex_swap_resched /\ topo (combs ex_comb).
Proof. exact (conj ex_swap_single_writer (conj ex_swap_registered_once (conj ex_swap_outs_nodup (conj ex_swap_resched_ok ex_comb_topo)))). Qed.

Example C05_exchange_runs :
  vals (clk_cycle ex_swap ex_s0) = [2; 1; 1; 1] /\
  vals (clk_cycle (with_drivers ex_swap ex_swap_resched) ex_s0) = [2; 1; 1; 1] /\
  sts (clk_cycle ex_swap ex_s0) = [2; 1; 1].
Proof. exact ex_swap_runs. Qed.

(* the hypotheses of the *_sorted theorems hold on a design with a sequential part (a register toggling through NOT
   and BUF, combinational leaves instantiated sink first; Proofs/C04/Compose.v): the sorter swaps the two leaves; and
   the sorting matters: on the unsorted list of the same leaves the split fails *)
Example C05_sorted_hyps_satisfiable :
  represents (combs tog_bad) tog_bad_succ /\ single_driver (combs tog_bad) /\
  closed tog_bad_succ (seq 0 (length (combs tog_bad))) /\
  sort_fuel tog_bad_succ py4hw_loop_limit (seq 0 (length (combs tog_bad))) = Sorted [1; 0]%nat /\
  clk tog_bad (1 + 1) (init tog_bad [0]) <> clk tog_bad 1 (clk tog_bad 1 (init tog_bad [0])).
Proof.
  exact (conj tog_bad_represents (conj tog_bad_single_driver (conj tog_closed
          (conj (proj1 (proj2 (proj2 (proj2 tog_sorted_hyps)))) tog_bad_split_fails)))).
Qed.

Print Assumptions C05_order_independent.
Print Assumptions C05_order_independent_cycle.
Print Assumptions C05_any_interleaving.
Print Assumptions C05_pre_edge_values.
Print Assumptions C05_pre_edge_values_clk.
Print Assumptions C05_pre_edge_inputs.
Print Assumptions C05_values_frozen_during_edge.
Print Assumptions C05_prepared_drained.
Print Assumptions C05_prepared_is_snapshot.
Print Assumptions C05_none_lost.
Print Assumptions C05_nothing_carried_over.
Print Assumptions C05_propagateAll_idempotent.
Print Assumptions C05_clk_split.
Print Assumptions C05_clk_split_idem.
Print Assumptions C05_clk_single_steps.
Print Assumptions C05_clk_split_unguarded_refuted.
Print Assumptions C05_order_without_single_writer_refuted.
Print Assumptions C05_topo_of_ordered.
Print Assumptions C05_ordered_of_topo.
Print Assumptions C05_propagateAll_idempotent_sorted.
Print Assumptions C05_clk_split_sorted.
Print Assumptions C05_clk_single_steps_sorted.

(* ---- the stimulus block Sequence (anchor: py4hw/logic/simulation.py Sequence.clock), REGENERATED as Gen.Seq.Sequence_clock --------------
   seq_run w vals n once k st = k edges of the regenerated clock(): (final state, the k values prepared on r).  From power-up (i = 0):
   wrapping mode prepares values[j mod n] at edge j, one-shot mode values[min j (n-1)]; every prepared value is in the wire's range and
   the index stays in [0, n) (so values[i] never raises IndexError when n = len(values) > 0). *)
Theorem C05_sequence_wrapping : forall w vals n k, 0 < n ->
  seq_run w vals n 0 k {| Sequence_s_i := 0 |} =
  ({| Sequence_s_i := Z.of_nat k mod n |}, map (fun j => Wire_prepare w (getZ vals (Z.of_nat j mod n))) (seq 0 k)).
Proof. exact sequence_wrapping. Qed.
Print Assumptions C05_sequence_wrapping.

Theorem C05_sequence_once : forall w vals n once k, 0 < n -> once <> 0 ->
  seq_run w vals n once k {| Sequence_s_i := 0 |} =
  ({| Sequence_s_i := Z.min (Z.of_nat k) (n - 1) |}, map (fun j => Wire_prepare w (getZ vals (Z.min (Z.of_nat j) (n - 1)))) (seq 0 k)).
Proof. exact sequence_once. Qed.
Print Assumptions C05_sequence_once.

Theorem C05_sequence_in_range : forall w vals once n k i0, 0 <= w -> 0 < n -> 0 <= i0 < n ->
  Forall (fun v => 0 <= v < 2 ^ w) (snd (seq_run w vals n once k {| Sequence_s_i := i0 |})) /\
  0 <= Sequence_s_i (fst (seq_run w vals n once k {| Sequence_s_i := i0 |})) < n.
Proof. exact sequence_outputs_in_range. Qed.
Print Assumptions C05_sequence_in_range.

Example C05_sequence_runs :
  snd (seq_run 4 [3; 17; 5; -1] 4 0 6 {| Sequence_s_i := 0 |}) = [3; 1; 5; 15; 3; 1] /\
  snd (seq_run 3 [1; 2; 9] 3 1 5 {| Sequence_s_i := 0 |}) = [1; 2; 1; 1; 1].
Proof. exact sequence_example. Qed.
