(* C06 — Wire values always fit their declared width.
   Statements only; proofs are in Proofs/C06/Range.v.  Wire_put / Wire_prepare (and the BidirWire
   copies) are REGENERATED from py4hw/base.py on every run (Gen/WireOps.v). *)
From V Require Import Base.Bits Gen.WireOps Model.SimKernel Model.Trace Proofs.C06.Range.

(* whatever value a block hands to put / prepare (negative, oversized), what is stored fits the width *)
Theorem C06_put_range : forall w v, 0 <= w -> 0 <= Wire_put w v < 2 ^ w.
Proof. exact put_range. Qed.
Theorem C06_prepare_range : forall w v, 0 <= w -> 0 <= Wire_prepare w v < 2 ^ w.
Proof. exact prepare_range. Qed.
Theorem C06_bidir_put_range : forall w v, 0 <= w -> 0 <= BidirWire_put w v < 2 ^ w.
Proof. exact bidir_put_range. Qed.
Theorem C06_bidir_prepare_range : forall w v, 0 <= w -> 0 <= BidirWire_prepare w v < 2 ^ w.
Proof. exact bidir_prepare_range. Qed.

(* for EVERY design (arbitrary leaf functions: "whatever the blocks computed"), every initial leaf
   state and every history of clk(n) / external pokes / propagateAll, every wire value v satisfies
   0 <= v < 2^width, and so does every pending (prepared) value. *)
Theorem C06_invariant :
  forall (St : Type) (d : design St) (st0 : list St) (ops : list op),
    Forall (fun w => 0 <= w) (widths d) ->
    let s := fold_left (run_op d) ops (init d st0) in
    Forall2 (fun w v => 0 <= v < 2 ^ w) (widths d) (vals s) /\
    Forall (fun '(i, v) => 0 <= v < 2 ^ nth i (widths d) 0) (pend s).
Proof. intros St d st0 ops H. exact (history_inv d H st0 ops). Qed.

(* the same when leaves put values on wires from their constructors (a register showing its initial value at power-up) *)
Theorem C06_invariant_constructor_puts :
  forall (St : Type) (d : design St) (st0 : list St) (pokes : list (nat * Z)) (ops : list op),
    Forall (fun w => 0 <= w) (widths d) ->
    let s := fold_left (run_op d) ops (init_poked d st0 pokes) in
    Forall2 (fun w v => 0 <= v < 2 ^ w) (widths d) (vals s) /\
    Forall (fun '(i, v) => 0 <= v < 2 ^ nth i (widths d) 0) (pend s).
Proof. intros St d st0 pokes ops H. exact (history_poked_inv d H st0 pokes ops). Qed.

(* non-vacuity: a 2-wire design whose single leaf computes a negative, oversized value *)
Example C06_nonvacuous :
  let d := {| widths := [3; 4]; combs := [{| c_in := [0%nat]; c_out := [1%nat]; c_f := fun _ => [Some (-1000)] |}];
              seqs := @nil (sleaf unit); drivers := [] |} in
  vals (fold_left (run_op d) [OpPoke 0%nat 77; OpClk 2] (init d [])) = [5; 8].
Proof. vm_compute. reflexivity. Qed.

Print Assumptions C06_put_range.
Print Assumptions C06_prepare_range.
Print Assumptions C06_bidir_put_range.
Print Assumptions C06_bidir_prepare_range.
Print Assumptions C06_invariant.
Print Assumptions C06_invariant_constructor_puts.
