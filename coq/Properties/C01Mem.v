(* C01 — the hand-written Verilog bodies of the memories behave like the simulated memories.
   Statements only (proofs: Proofs/C01/MemSound.v).  Model/VSem.v elaborates `reg [w-1:0] mem [0:d-1]` into d word nets base .. base+d-1,
   a word read `mem[i]` into the chain `mem_read base w 0 (d-1) i` and a procedural word write into `mem_write nb base w 0 d i e`.
   Model/C01Mem.v: `mem_cells env base d` the words an environment holds; `idx_is env idx i`: the index expression compares like the
   number i; `mem_port_proc` = the always-block  `if (write) mem[write_address] <= writedata; rreaddata <= mem[read_address];`
   of SynchronousMemory (one) and DualPortSynchronousMemory (two), as resolved Verilog (matched syntactically per generated design).
   The simulator side is the REGENERATED SynchronousMemory_clock / DualPortSynchronousMemory_clock (Gen/Seq.v). *)
From V Require Import Base.Bits Gen.WireOps Gen.Helpers Gen.Prims Gen.Seq Model.VSyntax Model.VSem Model.Inline Model.C01Mem
  Model.SimKernel Model.Trace Model.C01Prim Model.C01Seq Proofs.C01.InlineSound Proofs.C01.MemSound Proofs.C01.SeqG4 Proofs.C01.MemExamples Proofs.C01.AsyncMem Proofs.C01.AliasedPorts.

(* an unsigned net used as address compares like its value *)
Theorem C01_mem_index_net : forall env n, okn env n -> idx_is env (rid n) (getv env (fst n)).
Proof. exact idx_is_rid. Qed.

(* word read: in any context at least as wide as the words the chain evaluates to the addressed word (words k .. k+n of the memory,
   index inside; the literals k are printed as 32-bit decimals, hence the bound) *)
Theorem C01_mem_read_sound : forall env base w W idx i, idx_is env idx i -> 0 <= w <= W ->
  forall n k, Z.of_nat (k + n) < 2 ^ 31 -> Z.of_nat k <= i <= Z.of_nat (k + n) ->
  (forall j, (k <= j <= k + n)%nat -> 0 <= getv env (base + j) < 2 ^ w) ->
  reval env W false (mem_read base w k n idx) = getv env (base + Z.to_nat i).
Proof. exact mem_read_sound. Qed.

(* word write, non-blocking: the environment is unchanged and exactly ONE write is queued, to the addressed word, with the value of the
   right-hand side at that moment (none if the index is outside k .. k+n-1) *)
Theorem C01_mem_write_nba_sound : forall env base w idx e i, idx_is env idx i ->
  forall n k q, Z.of_nat (k + n) <= 2 ^ 31 ->
  exec (mem_write true base w k n idx e) (env, q) =
  (env, q ++ (if (Z.of_nat k <=? i) && (i <? Z.of_nat (k + n))
              then [(((base + Z.to_nat i)%nat, 0, w), assign_value env (RLId (base + Z.to_nat i) w) e)] else [])).
Proof. exact mem_write_nba. Qed.

(* word write, blocking (AsynchronousMemory), address and data on nets outside the memory: the addressed word is written at once *)
Theorem C01_mem_write_blocking_sound : forall base w a v, 0 <= w -> forall n k E q,
  okn E a -> Z.of_nat (k + n) <= 2 ^ 31 ->
  ~ (base + k <= fst a < base + k + n)%nat ->
  (forall j, (k <= j < k + n)%nat -> 0 <= getv E (base + j) < 2 ^ w) ->
  let i := getv E (fst a) in
  exec (mem_write false base w k n (rid a) (rid v)) (E, q) =
  ((if (Z.of_nat k <=? i) && (i <? Z.of_nat (k + n))
    then set_nth E (base + Z.to_nat i) (vtrunc w (assign_value E (RLId (base + Z.to_nat i) w) (rid v))) else E), q).
Proof. exact mem_write_blk. Qed.

(* SynchronousMemory, one posedge, EVERY address width aw (depth 2^aw; aw <= 31 for the literals), data width w, write-enable and
   write-data nets of any width, every stored contents and inputs: the process leaves the environment alone; after its queue is applied
   the words are the simulator's new contents (each truncated to w bits, as the read port shows them), rreaddata is the value clock()
   prepares for readdata, every other net is unchanged *)
Theorem C01_syncmem_sound : forall env base aw w rr ra wa we wd st,
  let d := Z.to_nat (2 ^ aw) in
  0 < w -> 0 < aw <= 31 -> snd rr = w -> snd ra = aw -> snd wa = aw ->
  okn env rr -> okn env ra -> okn env wa -> okn env we -> okn env wd ->
  (base + d <= length env)%nat -> (fst rr < length env)%nat -> ~ (base <= fst rr < base + d)%nat ->
  mem_cells env base d = map (trunc w) (SynchronousMemory_s_data st) ->
  let '(env1, q) := exec (body_syncmem_proc base w d rr ra wa we wd) (env, []) in
  let env' := apply_nbas env1 q in
  let '(st', rd) := SynchronousMemory_clock w st (getv env (fst ra)) (getv env (fst wa)) (getv env (fst we)) (getv env (fst wd)) in
  env1 = env /\ length env' = length env /\
  mem_cells env' base d = map (trunc w) (SynchronousMemory_s_data st') /\
  getv env' (fst rr) = rd /\
  (forall j, ~ (base <= j < base + d)%nat -> j <> fst rr -> getv env' j = getv env j).
Proof. exact syncmem_sound. Qed.

(* ... hence over EVERY input history (addresses aw bits, write-enable and data of any width): the sequence of values on rreaddata (= readdata
   through `assign readdata = rreaddata`) is the sequence clock() prepares, from any contents; the state is (words, rreaddata) *)
Theorem C01_syncmem_history : forall aw w wwe wwd ins, 0 < w -> 0 < aw <= 31 -> 0 < wwe -> 0 < wwd -> Forall (mem_in_ok aw wwe wwd) ins ->
  forall st cells rrv, cells = map (trunc w) (SynchronousMemory_s_data st) -> length cells = Z.to_nat (2 ^ aw) -> 0 <= rrv < 2 ^ w ->
  vmem_traj aw w wwe wwd (cells, rrv) ins = smem_traj w st ins.
Proof. exact syncmem_history. Qed.

(* DualPortSynchronousMemory: two always blocks run one after the other on the same clock edge; both read the words of BEFORE the edge,
   port a's write is queued before port b's, so b wins on equal addresses — exactly the order of the regenerated clock() *)
Theorem C01_dualmem_sound : forall env base aw w rra raa waa wea wda rrb rab wab web wdb st,
  let d := Z.to_nat (2 ^ aw) in
  0 < w -> 0 < aw <= 31 -> snd rra = w -> snd rrb = w -> snd raa = aw -> snd waa = aw -> snd rab = aw -> snd wab = aw ->
  okn env rra -> okn env raa -> okn env waa -> okn env wea -> okn env wda ->
  okn env rrb -> okn env rab -> okn env wab -> okn env web -> okn env wdb ->
  (base + d <= length env)%nat -> (fst rra < length env)%nat -> (fst rrb < length env)%nat -> fst rra <> fst rrb ->
  ~ (base <= fst rra < base + d)%nat -> ~ (base <= fst rrb < base + d)%nat ->
  mem_cells env base d = map (trunc w) (DualPortSynchronousMemory_s_data st) ->
  let '(e1, q1) := exec (mem_port_proc base w d rra raa waa wea wda) (env, []) in
  let '(e2, q2) := exec (mem_port_proc base w d rrb rab wab web wdb) (e1, q1) in
  let env' := apply_nbas e2 q2 in
  let '(st', o) := DualPortSynchronousMemory_clock w w st (getv env (fst raa)) (getv env (fst waa)) (getv env (fst wea)) (getv env (fst wda))
                                                   (getv env (fst rab)) (getv env (fst wab)) (getv env (fst web)) (getv env (fst wdb)) in
  e2 = env /\ length env' = length env /\
  mem_cells env' base d = map (trunc w) (DualPortSynchronousMemory_s_data st') /\
  getv env' (fst rra) = DualPortSynchronousMemory_o_readdata_a o /\
  getv env' (fst rrb) = DualPortSynchronousMemory_o_readdata_b o /\
  (forall j, ~ (base <= j < base + d)%nat -> j <> fst rra -> j <> fst rrb -> getv env' j = getv env j).
Proof. exact dualmem_sound. Qed.

(* non-vacuity: a 2-word 3-bit memory at nets 5,6; rr = net 7; ra wa we wd = nets 1 2 3 4; contents [5; 2], write 7 to word 1, read word 1 *)
Example C01_syncmem_nonvacuous :
  let env := [0; 1; 1; 1; 7; 5; 2; 0] in
  mem_cells env 5 2 = map (trunc 3) [5; 2] /\
  (let '(env1, q) := exec (body_syncmem_proc 5 3 2 (7%nat, 3) (1%nat, 1) (2%nat, 1) (3%nat, 1) (4%nat, 3)) (env, []) in apply_nbas env1 q)
    = [0; 1; 1; 1; 7; 5; 7; 2] /\
  SynchronousMemory_clock 3 {| SynchronousMemory_s_data := [5; 2] |} 1 1 1 7 = ({| SynchronousMemory_s_data := [5; 7] |}, 2).
Proof. exact syncmem_example. Qed.

(* AsynchronousMemory:  assign readdata = mem[read_address];  always @( * ) if (write) mem[write_address] = writedata;
   a flat design f consisting of exactly this body (one continuous assignment, one @* process), EVERY address width aw (depth 2^aw,
   aw <= 31 for the literals), data width w, write-enable and write-data nets of ANY width (`if (write)` and Python's truth test both mean
   "non-zero"; no 1-bit guard is needed), every stored contents and every in-range input values.  Guards: the five port nets are not memory
   words and readdata is none of the inputs.  VSem's settle (with VSem's own fuel) terminates with flag true in an environment env' that
   is a FIXPOINT of settle_pass, in which the words are the simulator's new contents (each truncated to w bits), readdata is the value
   AsynchronousMemory_propagate puts, every other net is unchanged; and propagate() evaluated again there returns the same (idempotent,
   as the simulator's repeated evaluation needs).  One pass is NOT enough in general (see the Example: the assign runs before the @*
   write); the proof shows two passes reach the fixpoint. *)
Theorem C01_asyncmem_sound : forall f env base aw w rd ra wa we wd st,
  let d := Z.to_nat (2 ^ aw) in
  f_assigns f = [body_asyncmem_read base w d rd ra] -> f_procs f = [(TStar, body_asyncmem_proc base w d wa we wd)] ->
  0 < w -> 0 < aw <= 31 -> snd rd = w -> snd ra = aw -> snd wa = aw ->
  okn env rd -> okn env ra -> okn env wa -> okn env we -> okn env wd ->
  (base + d <= length env)%nat -> (fst rd < length env)%nat ->
  ~ (base <= fst rd < base + d)%nat -> ~ (base <= fst ra < base + d)%nat -> ~ (base <= fst wa < base + d)%nat ->
  ~ (base <= fst we < base + d)%nat -> ~ (base <= fst wd < base + d)%nat ->
  fst rd <> fst ra -> fst rd <> fst wa -> fst rd <> fst we -> fst rd <> fst wd ->
  mem_cells env base d = map (trunc w) (AsynchronousMemory_s_data st) ->
  let '(st', o) := AsynchronousMemory_propagate w st (getv env (fst ra)) (getv env (fst wa)) (getv env (fst we)) (getv env (fst wd)) in
  exists env', VSem.settle f (settle_fuel f) env = (env', true) /\
    settle_pass f env' = env' /\
    length env' = length env /\
    mem_cells env' base d = map (trunc w) (AsynchronousMemory_s_data st') /\
    getv env' (fst rd) = o /\
    (forall j, ~ (base <= j < base + d)%nat -> j <> fst rd -> getv env' j = getv env j) /\
    AsynchronousMemory_propagate w st' (getv env' (fst ra)) (getv env' (fst wa)) (getv env' (fst we)) (getv env' (fst wd)) = (st', o).
Proof. exact asyncmem_sound. Qed.

(* non-vacuity: a 2-word 3-bit AsynchronousMemory (nets ra wa we wd rd = 0..4, words 5 6) holding [5; 2]; write 7 to word 1 while reading
   word 1.  The design passes the syntactic match; the first pass leaves the OLD word 2 on readdata, settle ends with 7 (write-through) *)
Example C01_asyncmem_nonvacuous :
  let env := [1; 1; 1; 7; 0; 5; 2] in
  match_asyncmem ex_async_flat 5 3 2 (4%nat, 3) (0%nat, 1) (1%nat, 1) (2%nat, 1) (3%nat, 3) = true /\
  mem_cells env 5 2 = map (trunc 3) [5; 2] /\
  VSem.settle ex_async_flat (settle_fuel ex_async_flat) env = ([1; 1; 1; 7; 7; 5; 7], true) /\
  settle_pass ex_async_flat env = [1; 1; 1; 7; 2; 5; 7] /\
  AsynchronousMemory_propagate 3 {| AsynchronousMemory_s_data := [5; 2] |} 1 1 1 7 = ({| AsynchronousMemory_s_data := [5; 7] |}, 7).
Proof. exact asyncmem_example. Qed.

(* ================================================================ COMPOSITION with memories (Model/C01Seq.v, Proofs/C01/SeqG1-4.v)
   The sequential instances of a design are registers AND single-port synchronous memories (`sinst`); an instance owns PRIVATE nets
   (rq / rreaddata and the memory words) that only its posedge process writes, and drives its output through `assign out = src`.
   `match_seq` / `match_items_s`: the decidable per-design check (as match_flat / match_items, with the instances' processes matched
   against `si_proc`, the word nets checked, the private nets untouched by anything else).  `ssim_rel`: every kernel wire holds the value
   of its net (private nets excepted), out = src, nothing pending, and `sinv`: rq shows the register's value / the words show the
   memory's contents (each truncated to the data width).  Kernel: `comp_design_s` with the regenerated Reg_clock /
   SynchronousMemory_clock leaves; power-up `si_st0` (value := reset_value / data := [0] * 2^aw) and `si_pokes` (Reg puts q). *)
Theorem C01_seq_cycle_compose : forall f ps gs clk ins, match_seq ps gs clk ins f = true ->
  forall env s pk n, ssim_rel f gs env s -> (forall p, In p pk -> In (fst p) ins) ->
  exists env', vstep f (Some clk) env pk n = (env', true) /\
               ssim_rel f gs env' (do_step (comp_design_s f ps gs) s (pk, n)).
Proof. exact sstep_under_match. Qed.

Theorem C01_seq_powerup_compose : forall f ps gs clk ins, match_seq ps gs clk ins f = true ->
  exists e1, VSem.settle f (settle_fuel f) (power_up f) = (e1, true) /\
             ssim_rel f gs e1 (init_poked (comp_design_s f ps gs) (map si_st0 gs) (si_pokes gs)).
Proof. exact spower_up_rel. Qed.

(* end to end, every stimulus that pokes only input nets: what the check executes (vsim) = the kernel run from power-up *)
Theorem C01_seq_vsim_compose : forall f ps gs clk ins, match_seq ps gs clk ins f = true ->
  forall clkname steps outs,
  net_index (f_nets f) clkname 0 = Some clk ->
  (forall o, In o (resolve_names f outs) -> ~ In o (flat_map si_priv gs)) ->
  legal_steps f ins steps ->
  vsim f clkname steps outs =
  (map (fun s => map (rd (vals s)) (resolve_names f outs))
       (run_states (comp_design_s f ps gs) (init_poked (comp_design_s f ps gs) (map si_st0 gs) (si_pokes gs)) (map (kstep f) steps)), true).
Proof. exact svsim_compose. Qed.

(* the same with merged multi-output Bits leaves: this is the statement the check decides for designs containing a memory *)
Theorem C01_seq_vsim_compose_items : forall f items gs clk ins, match_items_s items gs clk ins f = true ->
  forall clkname steps outs,
  net_index (f_nets f) clkname 0 = Some clk ->
  (forall o, In o (resolve_names f outs) -> ~ In o (flat_map si_priv gs)) ->
  legal_steps f ins steps ->
  vsim f clkname steps outs =
  (map (fun s => map (rd (vals s)) (resolve_names f outs))
       (run_states (comp_design_items_s f items gs) (init_poked (comp_design_items_s f items gs) (map si_st0 gs) (si_pokes gs)) (map (kstep f) steps)), true).
Proof. exact svsim_compose_items. Qed.

(* non-vacuity: a 2-word 3-bit memory behind top-level ports (nets clk ra wa we wd rd, words 6 7, rreaddata 8) passes the check;
   write 5 to word 1, then read word 1 *)
Example C01_seq_nonvacuous :
  match_seq [] [SMem ex_mem] 0 [1%nat; 2%nat; 3%nat; 4%nat] ex_mem_flat = true /\
  vsim ex_mem_flat "clk"%string [([("wa"%string, 1); ("we"%string, 1); ("wd"%string, 5)], 1%nat); ([("ra"%string, 1); ("we"%string, 0)], 1%nat)] ["rd"%string]
    = ([[0]; [0]; [5]], true).
Proof. exact ex_mem_ok. Qed.

(* ================================================================ finding `shared-module-aliased-ports` (known_findings/C01.json), machine-checked
   (placed in this file for the session-5 extension; it concerns the composition theorems of Properties/C01Compose.v).
   alias_design = the text /repo emits for  Add(x,x,r1); Add(a,b,r2)  (4-bit): both instances share module Add4, rendered from the FIRST
   instance, whose two input ports sit on one wire, so the shared body is `assign r = b + b + w_ci`.  It elaborates to alias_flat; the
   kernel netlist of the same py4hw design is Constant 0 / AddCarryIn per instance (regenerated leaves).  On x=3, a=1, b=2 the text shows
   r2 = 4 and the simulator 3: the conclusion of C01_vsim_compose_noclock is FALSE of this design; its hypothesis match_flat fails
   (that is how the check reports the finding). *)
Theorem C01_shared_module_aliased_ports_refuted :
  elaborate alias_design 10 "Top"%string = inr alias_flat /\
  net_index (f_nets alias_flat) "clk"%string 0 = None /\
  legal_steps alias_flat [0%nat; 1%nat; 2%nat] alias_steps /\
  let kernel := comp_design alias_flat alias_prims [] in
  let ktrace := map (fun s => map (rd (vals s)) (resolve_names alias_flat ["r1"%string; "r2"%string]))
                    (run_states kernel (init_poked kernel (reg_st0 []) (reg_pokes [])) (map (kstep alias_flat) alias_steps)) in
  vsim alias_flat "clk"%string alias_steps ["r1"%string; "r2"%string] = ([[0; 0]; [6; 4]], true) /\
  ktrace = [[0; 0]; [6; 3]] /\
  vsim alias_flat "clk"%string alias_steps ["r1"%string; "r2"%string] <> (ktrace, true) /\
  match_flat alias_prims [] 0 [0%nat; 1%nat; 2%nat] alias_flat = false.
Proof. exact alias_witness. Qed.

Print Assumptions C01_seq_cycle_compose.
Print Assumptions C01_seq_powerup_compose.
Print Assumptions C01_seq_vsim_compose.
Print Assumptions C01_seq_vsim_compose_items.

Print Assumptions C01_mem_index_net.
Print Assumptions C01_mem_read_sound.
Print Assumptions C01_mem_write_nba_sound.
Print Assumptions C01_mem_write_blocking_sound.
Print Assumptions C01_syncmem_sound.
Print Assumptions C01_syncmem_history.
Print Assumptions C01_dualmem_sound.
Print Assumptions C01_asyncmem_sound.
Print Assumptions C01_shared_module_aliased_ports_refuted.
