(* C04 — Combinational settling is complete and independent of construction order.
   Statements only; proofs in Proofs/C04/{SortLemmas,Acyclic,Settle,Refute,Chain,Main,Compose}.v.
   Sorter model: Model/Sort.v (step-for-step Simulator.topologicalSort / findFirstDependentPosition as of /repo 04873f4,
   i.e. with the self-feed check; tied to the real Simulator.propagatables element for element and to the kind of
   exception on every run).  Evaluation: Model/SimKernel.v propagateAll. *)
From V Require Import Base.PyInt Gen.WireOps Model.SimKernel Model.Sort Spec.C04.
From V Require Import Proofs.C04.SortLemmas Proofs.C04.Settle Proofs.C04.Refute Proofs.C04.Main Proofs.C04.Compose.
From V Require Spec.C05.
From Coq Require Import Permutation.
Local Open Scope nat_scope.

(* ---------------------------------------------------------------- the sorter *)

(* whenever the sorter returns a list (for ANY graph, any pass limit K, any instantiation order l), it is a
   permutation of the leaves and every dependent of l'[i] sits at a position > i (strictly: the self-feed check makes
   the old ">= i unless nobody feeds itself" unconditional).  `closed` is the guard the real code needs
   (propagatables.index would raise ValueError otherwise). *)
Theorem C04_sort_sound : forall succ K l l',
  NoDup l -> closed succ l -> sort_fuel succ K l = Sorted l' ->
  Permutation l l' /\ strict_topo succ l'.
Proof. exact sort_sound_thm. Qed.

(* on every acyclic graph (acyclicity = a ranking d exists) a pass limit exists that suffices for EVERY
   instantiation order of the same leaves; neither error is raised *)
Theorem C04_sort_terminates : forall succ d l,
  NoDup l -> closed succ l -> ranking succ l d ->
  exists K0, forall l0, Permutation l l0 -> forall K, K0 <= K -> exists l', sort_fuel succ K l0 = Sorted l'.
Proof. exact sort_terminates_thm. Qed.

(* "a ranking exists" is exactly "no leaf reaches itself" on a finite closed leaf set ... *)
Theorem C04_acyclic_iff_ranking : forall succ l, closed succ l ->
  ((forall v, In v l -> ~ path succ v v) <-> exists d, ranking succ l d).
Proof. exact acyclic_iff_ranking_thm. Qed.

(* ... so the sorter terminates on EVERY netlist without a combinational cycle, for every instantiation order,
   given enough passes *)
Theorem C04_sort_terminates_acyclic : forall succ l,
  NoDup l -> closed succ l -> (forall v, In v l -> ~ path succ v v) ->
  exists K0, forall l0, Permutation l l0 -> forall K, K0 <= K -> exists l', sort_fuel succ K l0 = Sorted l'.
Proof. exact sort_terminates_acyclic_thm. Qed.

(* each swap the code performs strictly increases  sum_i i * d(l[i])  (the termination measure) *)
Theorem C04_swap_increases_measure : forall succ d l i p,
  closed succ l -> ranking succ l d -> i < length l ->
  first_dep succ l (nth i l 0) = Some p -> p < i -> Msum d 0 l < Msum d 0 (swap l p i).
Proof. exact swap_increases_measure_thm. Qed.

(* REJECTION, complete: a netlist with ANY combinational cycle (some leaf reaches itself through >= 1 dependency edge:
   self-feeding leaves and cycles through several leaves alike) is never returned as sorted, whatever the pass limit
   and the instantiation order *)
Theorem C04_cyclic_rejected : forall succ K l l',
  NoDup l -> closed succ l -> (exists v, In v l /\ path succ v v) -> sort_fuel succ K l <> Sorted l'.
Proof. exact cyclic_rejected_thm. Qed.

(* the two special cases by name: a cycle through two distinct leaves ... *)
Theorem C04_cycle_rejected : forall succ K l l',
  NoDup l -> closed succ l -> has_cycle2 succ l -> sort_fuel succ K l <> Sorted l'.
Proof. exact cycle_rejected_thm. Qed.

(* ... and a leaf feeding itself (was accepted before /repo 04873f4; finding C04-selfloop, now fixed) *)
Theorem C04_selfloop_rejected : forall succ K l l' x,
  NoDup l -> closed succ l -> In x l -> self_loop succ x -> sort_fuel succ K l <> Sorted l'.
Proof. exact selfloop_rejected_thm. Qed.

(* the errors are truthful: the loop error names a leaf that really feeds itself; hence a cycle through >= 2 leaves
   in a netlist where nobody feeds itself is always refused by the pass limit *)
Theorem C04_loop_error_sound : forall succ K l x,
  NoDup l -> closed succ l -> sort_fuel succ K l = LoopError x -> In x l /\ self_loop succ x.
Proof. exact loop_error_sound_thm. Qed.

Theorem C04_cycle2_limit_error : forall succ K l,
  NoDup l -> closed succ l -> has_cycle2 succ l -> (forall x, In x l -> ~ self_loop succ x) ->
  sort_fuel succ K l = LimitError.
Proof. exact cycle2_limit_error_thm. Qed.

(* ---------------------------------------------------------------- settling *)

(* for EVERY design with arbitrary leaf functions: if the evaluation list respects the dependencies strictly and
   every wire has one driver, then after propagateAll re-evaluating any leaf changes nothing (fixpoint), from
   every starting valuation *)
Theorem C04_settle_fixpoint : forall (St : Type) (d : design St) (vs : list Z),
  ordered (combs d) -> single_driver (combs d) -> settled d (propagateAll d vs).
Proof. exact settle_fixpoint_thm. Qed.

(* hence the netlist is settled when the simulator has been constructed and after every clk(n), for every
   history of the sequential part *)
Theorem C04_settled_after_init_and_clk : forall (St : Type) (d : design St) (st0 : list St) (s : state St) (n : nat),
  ordered (combs d) -> single_driver (combs d) ->
  settled d (vals (init d st0)) /\ settled d (vals (clk d n s)).
Proof. exact settled_after_init_and_clk_thm. Qed.

(* the settled valuation is unique: two valuations that are fixpoints of every (definite) leaf and agree on the
   undriven wires (inputs, register outputs) are equal *)
Theorem C04_fixpoint_unique : forall (St : Type) (d : design St) (vs1 vs2 : list Z),
  ordered (combs d) -> (forall c, In c (combs d) -> definite c) ->
  settled d vs1 -> settled d vs2 -> length vs1 = length vs2 ->
  (forall w, ~ driven (combs d) w -> nth w vs1 0%Z = nth w vs2 0%Z) -> vs1 = vs2.
Proof. exact fixpoint_unique_thm. Qed.

(* construction-order independence: two dependency-respecting orders of the same leaves give the same values *)
Theorem C04_order_independent : forall (St : Type) (d1 d2 : design St) (vs : list Z),
  same_netlist d1 d2 -> ordered (combs d1) -> ordered (combs d2) ->
  single_driver (combs d1) -> (forall c, In c (combs d1) -> definite c) ->
  propagateAll d1 vs = propagateAll d2 vs.
Proof. exact order_independent_thm. Qed.

(* sorter + evaluation end to end: the leaves instantiated in ANY order (cs), the graph the sorter sees represents
   their wire dependencies: whatever list the sorter returns schedules the same netlist and propagateAll over it
   settles every wire (no "nobody feeds itself" hypothesis any more: such netlists are not returned) *)
Theorem C04_sorted_netlist_settles : forall (St : Type) (d : design St) succ K l (vs : list Z),
  represents (combs d) succ -> single_driver (combs d) ->
  closed succ (seq 0 (length (combs d))) ->
  sort_fuel succ K (seq 0 (length (combs d))) = Sorted l ->
  let d' := with_combs d (reorder (combs d) l) in
  same_netlist d d' /\ ordered (combs d') /\ settled d' (propagateAll d' vs).
Proof. exact sorted_netlist_settles_thm. Qed.

(* construction-order independence, literally: the same leaves instantiated in two different orders (d1, d2), each
   list sorted by the sorter from its own instantiation order, give the same value on every wire *)
Theorem C04_construction_order_independent : forall (St : Type) (d1 d2 : design St) succ1 succ2 K l1 l2 (vs : list Z),
  same_netlist d1 d2 -> single_driver (combs d1) -> (forall c, In c (combs d1) -> definite c) ->
  represents (combs d1) succ1 -> represents (combs d2) succ2 ->
  sort_fuel succ1 K (seq 0 (length (combs d1))) = Sorted l1 ->
  sort_fuel succ2 K (seq 0 (length (combs d2))) = Sorted l2 ->
  propagateAll (with_combs d1 (reorder (combs d1) l1)) vs = propagateAll (with_combs d2 (reorder (combs d2) l2)) vs.
Proof. exact construction_order_independent_thm. Qed.

(* ---------------------------------------------------------------- composition with C05 (added in session 5)
   C04's guard implies C05's: a strictly dependency-ordered single-driver list is in Spec.C05.topo order, so every
   C05 theorem stated under `topo` (idempotent propagateAll, clk(m+n) = clk n . clk m) holds under C04's hypotheses *)
Theorem C04_ordered_is_topo : forall cs, ordered cs -> single_driver cs -> Spec.C05.topo cs.
Proof. exact ordered_single_driver_topo_thm. Qed.

(* sorter + simulator end to end: for a design whose combinational list is WHATEVER the sorter returned for its
   instantiation order, the netlist is settled when the simulator has been constructed and after every clk(n), from
   every state, for every history of the sequential part (hypotheses: those of C04_sorted_netlist_settles) *)
Theorem C04_sorted_settled_after_init_and_clk :
  forall (St : Type) (d : design St) succ K l (st0 : list St) (s : state St) (n : nat),
  represents (combs d) succ -> single_driver (combs d) ->
  closed succ (seq 0 (length (combs d))) ->
  sort_fuel succ K (seq 0 (length (combs d))) = Sorted l ->
  let d' := with_combs d (reorder (combs d) l) in
  settled d' (vals (init d' st0)) /\ settled d' (vals (clk d' n s)).
Proof. exact sorted_settled_after_init_and_clk_thm. Qed.

(* construction-order independence of whole runs: the same netlist (same wires, sequential leaves and clock drivers,
   combinational leaves instantiated in two different orders), each list sorted by the sorter: the simulator state
   after construction and after clk(n) from any common state is identical (all wires, leaf states, pending, counter) *)
Theorem C04_construction_order_independent_run :
  forall (St : Type) (d1 d2 : design St) succ1 succ2 K l1 l2 (st0 : list St) (s : state St) (n : nat),
  same_netlist d1 d2 -> seqs d1 = seqs d2 -> drivers d1 = drivers d2 ->
  single_driver (combs d1) -> (forall c, In c (combs d1) -> definite c) ->
  represents (combs d1) succ1 -> represents (combs d2) succ2 ->
  sort_fuel succ1 K (seq 0 (length (combs d1))) = Sorted l1 ->
  sort_fuel succ2 K (seq 0 (length (combs d2))) = Sorted l2 ->
  let d1' := with_combs d1 (reorder (combs d1) l1) in
  let d2' := with_combs d2 (reorder (combs d2) l2) in
  init d1' st0 = init d2' st0 /\ clk d1' n s = clk d2' n s.
Proof. exact construction_order_independent_run_thm. Qed.

(* C04-passlimit: repaired in /repo 4992c48 (the limit scales with the number of leaves); the refutation of every CONSTANT limit
   (limit_refuted_thm in Proofs/C04/Main.v) no longer describes the code and is not a property theorem any more *)
(* the number of passes the sorter needs on n leaves instantiated sink-first is exactly n (so no constant limit works;
   the conjectured bound "n passes always suffice" is tight if true) *)
Theorem C04_pass_count_chain : forall n K, 1 <= n ->
  sort_fuel (chain_succ n) K (rev_chain n) = if K <? n then LimitError else Sorted (seq 0 n).
Proof. exact pass_count_chain_thm. Qed.

(* ---------------------------------------------------------------- the limit as a function of the netlist size
   (the check evaluates the code's limit expression per netlist; these hold for whatever it is) *)

(* allowing more passes never changes an answer already given (a sorted list or the loop error) ... *)
Theorem C04_more_passes_never_hurt : forall succ K K' l r,
  K <= K' -> sort_fuel succ K l = r -> r <> LimitError -> sort_fuel succ K' l = r.
Proof. exact more_passes_never_hurt_thm. Qed.

(* ... so the limit max(1000, n+1) of fixes/C04-passlimit.diff accepts, with the same list, everything the constant
   1000 accepts (and still refuses every cyclic netlist: C04_cyclic_rejected holds for every limit) ... *)
Theorem C04_scaled_limit_no_worse : forall succ n l l',
  sort_fuel succ py4hw_loop_limit l = Sorted l' -> sort_fuel succ (scaled_limit n) l = Sorted l'.
Proof. exact scaled_limit_no_worse_thm. Qed.

(* ... and it accepts the sink-first chain of every length, the family that defeats every constant limit *)
Theorem C04_scaled_limit_accepts_chain : forall n, 1 <= n ->
  sort_fuel (chain_succ n) (scaled_limit n) (rev_chain n) = Sorted (seq 0 n).
Proof. exact scaled_limit_accepts_chain_thm. Qed.

(* ---------------------------------------------------------------- non-vacuity *)
Example C04_sort_nonvacuous : sort_fuel ex_succ py4hw_loop_limit [0; 1; 2] = Sorted [1; 2; 0].
Proof. exact ex_sorts. Qed.
Example C04_cycle_nonvacuous : NoDup [0; 1] /\ closed cyc_succ [0; 1] /\ has_cycle2 cyc_succ [0; 1].
Proof. exact cyc_has_cycle. Qed.
(* a self-feeding leaf beside a clean one: refused with the loop error naming it, in both instantiation orders *)
Example C04_selfloop_nonvacuous : NoDup [0; 1] /\ closed selfloop_succ [0; 1] /\ self_loop selfloop_succ 0 /\
  sort_fuel selfloop_succ py4hw_loop_limit [0; 1] = LoopError 0 /\
  sort_fuel selfloop_succ py4hw_loop_limit [1; 0] = LoopError 0.
Proof. exact selfloop_refused. Qed.
(* why that refusal matters: an inverter on its own output is not settled by propagateAll (`ordered` must be strict) *)
Example C04_selfloop_would_not_settle : single_driver (combs inv_loop) /\ ~ settled inv_loop (propagateAll inv_loop [0%Z]).
Proof. exact selfloop_not_settled. Qed.
Example C04_terminates_nonvacuous : closed (chain_succ 5) (rev_chain 5) /\ ranking (chain_succ 5) (rev_chain 5) (fun x => x).
Proof. split; [apply chain_closed | apply chain_ranking]. Qed.
Example C04_settle_nonvacuous : ordered (combs two_good) /\ single_driver (combs two_good) /\
  propagateAll two_good [0; 0; 0]%Z = [0; 1; 1]%Z.
Proof. exact two_good_ok. Qed.
(* the hypothesis `ordered` is needed: the same two leaves in the unsorted order are left unsettled *)
Example C04_unsorted_unsettled : ~ settled two_bad (propagateAll two_bad [0; 0; 0]%Z).
Proof. exact two_bad_unsettled. Qed.
(* the hypotheses of the end-to-end theorems hold on a real instance: two leaves instantiated sink-first, the sorter
   swaps them and the reordered list is the settled schedule of C04_settle_nonvacuous *)
Example C04_end_to_end_nonvacuous : represents (combs two_bad) two_bad_succ /\ (forall i, ~ self_loop two_bad_succ i) /\
  single_driver (combs two_bad) /\
  sort_fuel two_bad_succ py4hw_loop_limit (seq 0 (length (combs two_bad))) = Sorted [1; 0] /\
  reorder (combs two_bad) [1; 0] = combs two_good.
Proof. exact two_bad_represents. Qed.
(* the hypotheses of C04_sorted_settled_after_init_and_clk hold on a design WITH a sequential part (a register
   toggling through NOT and BUF, the two combinational leaves instantiated sink first): the sorter swaps them, the
   register toggles (q = 1,0,1 after 1,2,3 cycles from power-up), and the unsorted list is left unsettled by clk(1) *)
Example C04_sorted_run_nonvacuous :
  represents (combs tog_bad) tog_bad_succ /\ single_driver (combs tog_bad) /\
  closed tog_bad_succ (seq 0 (length (combs tog_bad))) /\
  sort_fuel tog_bad_succ py4hw_loop_limit (seq 0 (length (combs tog_bad))) = Sorted [1; 0] /\
  with_combs tog_bad (reorder (combs tog_bad) [1; 0]) = tog_good /\
  map (fun n => vals (clk tog_good n (init tog_good [0%Z]))) [1; 2; 3] = [[1; 0; 0]; [0; 1; 1]; [1; 0; 0]]%Z /\
  ~ settled tog_bad (vals (clk tog_bad 1 (init tog_bad [0%Z]))).
Proof. exact tog_sorted_hyps. Qed.
(* ... and those of C04_construction_order_independent_run (definite leaves, both instantiation orders) *)
Example C04_two_orders_run_nonvacuous :
  same_netlist tog_bad tog_good /\ seqs tog_bad = seqs tog_good /\ drivers tog_bad = drivers tog_good /\
  single_driver (combs tog_bad) /\ (forall c, In c (combs tog_bad) -> definite c) /\
  represents (combs tog_bad) tog_bad_succ /\ represents (combs tog_good) tog_good_succ /\
  sort_fuel tog_bad_succ py4hw_loop_limit (seq 0 (length (combs tog_bad))) = Sorted [1; 0] /\
  sort_fuel tog_good_succ py4hw_loop_limit (seq 0 (length (combs tog_good))) = Sorted [0; 1].
Proof. exact tog_two_orders_hyps. Qed.

Print Assumptions C04_sort_sound.
Print Assumptions C04_sort_terminates.
Print Assumptions C04_acyclic_iff_ranking.
Print Assumptions C04_sort_terminates_acyclic.
Print Assumptions C04_swap_increases_measure.
Print Assumptions C04_cyclic_rejected.
Print Assumptions C04_cycle_rejected.
Print Assumptions C04_selfloop_rejected.
Print Assumptions C04_loop_error_sound.
Print Assumptions C04_cycle2_limit_error.
Print Assumptions C04_settle_fixpoint.
Print Assumptions C04_settled_after_init_and_clk.
Print Assumptions C04_fixpoint_unique.
Print Assumptions C04_order_independent.
Print Assumptions C04_sorted_netlist_settles.
Print Assumptions C04_construction_order_independent.
Print Assumptions C04_pass_count_chain.
Print Assumptions C04_more_passes_never_hurt.
Print Assumptions C04_scaled_limit_no_worse.
Print Assumptions C04_scaled_limit_accepts_chain.
Print Assumptions C04_ordered_is_topo.
Print Assumptions C04_sorted_settled_after_init_and_clk.
Print Assumptions C04_construction_order_independent_run.
