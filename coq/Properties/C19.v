(* C19 — Verilog generation is a pure, repeatable function of the circuit.
   Statements only; proofs are in Proofs/C19/{Thread,History,Scope,Refute,Canon}.v.
   Model/GenState.v is a HAND-WRITTEN state machine of py4hw/rtl_generation.py (module-global one-entry wire-name
   cache, created_structures list objects, generator objects); py/props/c19.py ties it to the real generator on
   every run (same request histories: answers, cache contents, created_structures, miss trace).
   What the model cannot express — that the real generator does not write to the circuit — is checked on the
   implementation only (deep snapshots, simulation traces); see docs/C19.md. *)
From Coq Require Import ZArith List Bool.
From V Require Import Model.GenState Spec.C19.
From Coq Require Import Permutation.
From V Require Import Proofs.C19.Thread Proofs.C19.History Proofs.C19.Scope Proofs.C19.Refute Proofs.C19.Canon Proofs.C19.CanonOrder Proofs.C19.Rename.
Import ListNotations.
Open Scope Z_scope.

(* After ANY history of requests (generators created, single modules and hierarchies requested on any of them,
   caller lists created, circuits edited), the answer to a generation request is the answer of the cache-free
   reference generator: a function of the circuits as they are now, the object the generator was built for, the
   request, and the current contents of the list passed as createdStructures — nothing else of the history.
   Guard: object identities are unique within the circuit (Python's id() of live objects). *)
Theorem C19_history_independent :
  forall env history r g ge,
    let s := fst (run (init env) history) in
    req_gen r = Some g -> nth_error (p_gens s) g = Some ge -> req_ok s r = true ->
    (forall c, nth_error (p_env s) (ge_circ ge) = Some c -> uniq_ids (nodes c)) ->
    snd (step s r) = ref_answer (p_env s) (ge_circ ge) (ge_root ge) r (req_pre s r).
Proof. exact history_independent. Qed.

(* ... which is literally what the same request gives in a new process on a new generator (and a new list with
   the same contents) *)
Theorem C19_fresh_generator :
  forall env history r g ge,
    let s := fst (run (init env) history) in
    req_gen r = Some g -> nth_error (p_gens s) g = Some ge -> req_ok s r = true ->
    (forall c, nth_error (p_env s) (ge_circ ge) = Some c -> uniq_ids (nodes c)) ->
    snd (step s r) = on_fresh_generator (p_env s) (ge_circ ge) (ge_root ge) r (req_pre s r).
Proof. exact fresh_generator. Qed.

(* Inside a request: the cleared cache is coherent; every getWireNames on a coherent cache — hit or miss — returns
   what recomputation gives and leaves the cache coherent; _getVerilog and _getVerilogForHierarchy keep it so. *)
Theorem C19_cache_coherent :
  forall U, uniq_ids U ->
    (forall cr lg, coh U {| g_cache := None; g_created := cr; g_log := lg |}) /\
    (forall st n, coh U st -> In n U ->
       snd (getWireNames n st) = names_of n /\ coh U (fst (getWireNames n st))) /\
    (forall st par n noInst force, coh U st -> In n U -> par_in U par ->
       coh U (fst (emit par n noInst force st))) /\
    (forall st par n noInst force, coh U st -> incl (nodes n) U -> par_in U par ->
       coh U (fst (hier par n noInst force st))).
Proof. exact cache_coherent. Qed.

(* What clearWireNamesCache() at the entry points is for.  Variant of the generator that never clears: for every
   history that does not edit a circuit the answers are still the reference answers (induction over the history,
   invariant: the process-level cache is coherent with the live objects) ... *)
Theorem C19_noclear_immutable :
  forall env history r g ge,
    uniq_ids (all_nodes env) -> forallb (fun r => negb (is_edit r)) history = true ->
    let s := fst (run_gen false (init env) history) in
    req_gen r = Some g -> nth_error (p_gens s) g = Some ge -> req_ok s r = true ->
    snd (step_gen false s r) = ref_answer (p_env s) (ge_circ ge) (ge_root ge) r (req_pre s r).
Proof. exact noclear_immutable. Qed.

(* ... but a circuit edited between two requests gives a stale answer without the clearing, and the right one
   with it (the real code clears). *)
Theorem C19_noclear_edit_refuted :
  exists env history r g ge,
    let s := fst (run_gen false (init env) history) in
    uniq_ids (all_nodes (p_env s)) /\ req_gen r = Some g /\ nth_error (p_gens s) g = Some ge /\ req_ok s r = true /\
    snd (step_gen false s r) <> ref_answer (p_env s) (ge_circ ge) (ge_root ge) r (req_pre s r) /\
    snd (step_gen true s r) = ref_answer (p_env s) (ge_circ ge) (ge_root ge) r (req_pre s r).
Proof. exact noclear_edit_refuted. Qed.

(* REFUTED clause (finding C19-F1): "repeating a request gives the same text" is false when the caller passes the
   same list OBJECT as createdStructures twice: the generator keeps the reference and appends to it, the second
   text is empty, while a fresh generator with a list of the original contents gives the full text. *)
Theorem C19_shared_list_refuted :
  exists env t1,
    uniq_ids (all_nodes env) /\
    snd (run (init env) [RNewGen 0 1; RNewList []; rq_shared; rq_shared]) = [None; None; Some t1; Some []] /\
    t1 <> [] /\ on_fresh_generator env 0 1 rq_shared [] = Some t1.
Proof. exact shared_list_refuted. Qed.

(* Scope independence, the part that holds: in ANY two answers (any process states, any generators, single module
   or hierarchy, whatever object the request started from, no forced name) over the same circuit, two modules
   carrying the same INSTANCE-UNIQUE name  <Type>_<id>  are the same chunk: same ports, declarations, names used
   for every instance connection. *)
Theorem C19_scope_independent :
  forall s1 s2 r1 r2 g1 ge1 g2 ge2 c t1 t2 ch1 ch2 tk i,
    req_gen r1 = Some g1 -> nth_error (p_gens s1) g1 = Some ge1 -> req_ok s1 r1 = true ->
    req_gen r2 = Some g2 -> nth_error (p_gens s2) g2 = Some ge2 -> req_ok s2 r2 = true ->
    nth_error (p_env s1) (ge_circ ge1) = Some c -> nth_error (p_env s2) (ge_circ ge2) = Some c -> uniq_ids (nodes c) ->
    req_force r1 = None -> req_force r2 = None ->
    snd (step s1 r1) = Some t1 -> snd (step s2 r2) = Some t2 -> In ch1 t1 -> In ch2 t2 ->
    chunk_name ch1 = Some (tk, Some i) -> chunk_name ch2 = Some (tk, Some i) -> ch1 = ch2.
Proof. exact scope_independent. Qed.

(* every chunk of a hierarchy answer is rendered from one block (and, for a primitive inlined out of scope, its
   parent) under that block's own name: the object the request started from does not enter *)
Theorem C19_chunks_local :
  forall a par noInst force cr ch,
    In ch (snd (ref_hier par a noInst force cr)) ->
    ch = ref_chunk par a (req_name a noInst force) \/
    exists p s, In (p, s) (edges a) /\ ch = ref_chunk (Some p) s (modname s false).
Proof. exact ref_hier_chunks. Qed.

(* REFUTED clause (finding C19-F2): for modules named by structureName() — one module for several instances — the
   text depends on which instance the walk meets first, hence on the object the request started from:
   HWSystem{ u1 = Add(x, x, r1); bx = Box{ u2 = Add(a, b, r) } } gives two different modules "Add8". *)
Theorem C19_scope_shared_name_refuted :
  exists env t1 t2 nm ch1 ch2,
    uniq_ids (all_nodes env) /\
    snd (run (init env) [RNewGen 0 1; RGetHier 0 None true None None; RGetHier 0 (Some 3) true None None])
      = [None; Some t1; Some t2] /\
    find_module nm t1 = Some ch1 /\ find_module nm t2 = Some ch2 /\ ch1 <> ch2.
Proof. exact scope_shared_name_refuted. Qed.

(* The same design built again (every object and wire under another identity, injectively): the answer is the same
   answer with the identities inside the module names renamed accordingly — names of ports, wires, declarations and
   connections are untouched.  This is the "instance-unique suffixes replaced consistently" of the property. *)
Theorem C19_rebuilt_copy :
  forall fo fw, injective fo -> injective fw -> forall n par noInst force cr,
    snd (ref_hier (option_map (ren_node fo fw) par) (ren_node fo fw n) noInst (option_map (ren_sname fo) force) (map (ren_sname fo) cr)) =
    map (ren_chunk fo) (snd (ref_hier par n noInst force cr)) /\
    snd (ref_emit (option_map (ren_node fo fw) par) (ren_node fo fw n) noInst (option_map (ren_sname fo) force) (map (ren_sname fo) cr)) =
    map (ren_chunk fo) (snd (ref_emit par n noInst force cr)).
Proof. exact (fun fo fw Ho Hw n par noInst force cr => conj (rebuilt_copy fo fw Ho Hw n par noInst force cr) (rebuilt_copy_single fo fw Ho Hw n par noInst force cr)). Qed.

(* canon: idempotent; canon-equality is an equivalence and canon picks a representative of the class *)
Theorem C19_canon_idempotent : forall t, canon (canon t) = canon t.
Proof. exact canon_idempotent. Qed.

Theorem C19_canon_equivalence :
  (forall a, canon_eq a a) /\ (forall a b, canon_eq a b -> canon_eq b a) /\
  (forall a b c, canon_eq a b -> canon_eq b c -> canon_eq a c) /\ (forall a, canon_eq (canon a) a).
Proof. exact (conj canon_eq_refl (conj canon_eq_sym (conj canon_eq_trans canon_eq_canon))). Qed.

(* canon does not see the order of the lines inside a run of wire declarations (lines without instance ids) *)
Theorem C19_canon_decl_order :
  forall pre run1 run2 post,
    Forall (fun l => is_decl l = true) run1 -> Forall no_ids run1 -> Permutation run1 run2 ->
    canon (pre ++ run1 ++ post) = canon (pre ++ run2 ++ post).
Proof. exact canon_decl_order. Qed.

Example C19_canon_decl_order_instance :
  Forall (fun l => is_decl l = true) (firstn 2 sample_a) /\ Forall no_ids (firstn 2 sample_a) /\
  Permutation (firstn 2 sample_a) (rev (firstn 2 sample_a)).
Proof. exact canon_decl_order_instance. Qed.

(* instances: the hypotheses of the positive theorems are satisfiable on a non-trivial circuit; canon identifies two
   printings that differ in declaration order and identities and separates one with crossed instances *)
Example C19_history_instance :
  let s := fst (run (init [top]) [RNewGen 0 1; RGetVerilog 0 (Some 3) false None; RNewGen 0 3; RGetHier 1 None true None None]) in
  req_gen (RGetHier 0 None true None None) = Some 0%nat /\
  nth_error (p_gens s) 0 = Some {| ge_circ := 0; ge_root := 1; ge_cs := 1 |} /\
  req_ok s (RGetHier 0 None true None None) = true /\
  (forall c, nth_error (p_env s) 0 = Some c -> uniq_ids (nodes c)) /\
  exists t, snd (step s (RGetHier 0 None true None None)) = Some t /\ length t = 3%nat.
Proof. exact history_instance. Qed.

Example C19_scope_instance :
  exists t1 t2 ch,
    snd (run (init [top]) [RNewGen 0 1; RGetHier 0 None true None None; RGetVerilog 0 (Some 3) false None])
      = [None; Some t1; Some t2] /\
    find_module (3, Some 3) t1 = Some ch /\ find_module (3, Some 3) t2 = Some ch.
Proof. exact scope_instance. Qed.

Example C19_rebuilt_instance :
  injective (fun x => x + 7) /\ injective (fun x => 2 * x) /\
  snd (ref_hier None (ren_node (fun x => x + 7) (fun x => 2 * x) top) true None []) =
  map (ren_chunk (fun x => x + 7)) (snd (ref_hier None top true None [])).
Proof. exact rebuilt_instance. Qed.

Example C19_canon_samples : canon_eq sample_a sample_b /\ ~ canon_eq sample_a sample_c.
Proof. exact canon_samples. Qed.

Print Assumptions C19_history_independent.
Print Assumptions C19_fresh_generator.
Print Assumptions C19_cache_coherent.
Print Assumptions C19_noclear_immutable.
Print Assumptions C19_noclear_edit_refuted.
Print Assumptions C19_shared_list_refuted.
Print Assumptions C19_scope_independent.
Print Assumptions C19_chunks_local.
Print Assumptions C19_scope_shared_name_refuted.
Print Assumptions C19_rebuilt_copy.
Print Assumptions C19_canon_idempotent.
Print Assumptions C19_canon_equivalence.
Print Assumptions C19_canon_decl_order.
