(* C11 -- Ill-formed netlists are rejected when they are built or checked.
   Statements only; proofs in Proofs/C11/*.v.  The model (Model/Build.v) is hand-written from py4hw/base.py and
   py4hw/debug.py (as of /repo commits a702577 + 0cca5f4 and 0845e1f) and is run against the real classes on every check
   (py/props/c11.py): same operation sequences, compared after every call on raise/no-raise and on every attribute
   (children, _wires, port lists, source, sinks).
   `run ops` = the state after executing ANY list of construction calls from the empty heap, legal or not. *)
From Coq Require Import ZArith List Bool Arith Lia.
From V Require Import Model.Build Spec.C11 Proofs.C11.Registered Proofs.C11.Integrity Proofs.C11.Main.
Import ListNotations.

(* ---- invariants over every construction sequence ------------------------------------------------------- *)
(* wires are ordinary Wires or BidirWires (same _wires tables, same rename/reparent code, duplicated in the class).
   ORDINARY wire: the out/inout ports of primitive blocks attached to it are exactly its registered source: at most one *)
Theorem C11_single_driver : forall ops, single_driver (run ops).
Proof. exact single_driver_run. Qed.
Theorem C11_at_most_one_driver : forall ops w q q',
  w < nwire (run ops) -> wbidir (run ops) w = false -> driver (run ops) q w -> driver (run ops) q' w -> q = q'.
Proof. exact one_driver_run. Qed.
(* names in a children table are distinct; c is registered under (p, n) iff c.parent = p and c.name = n *)
Theorem C11_unique_children : forall ops, unique_children (run ops).
Proof. exact unique_children_run. Qed.
(* names in a _wires table are distinct; the wire stored under (p, n) has parent p and name n *)
Theorem C11_unique_wires : forall ops, unique_wires (run ops).
Proof. exact unique_wires_run. Qed.
(* ... and conversely EVERY created wire is stored in its parent's table under its own name, whatever calls
   (failed renames / reparents included) were made: no wire is ever left outside the tables *)
Theorem C11_wires_registered : forall ops, all_registered (run ops).
Proof. exact wires_registered_run. Qed.
(* wire.sinks is exactly the list of in / inout ports of PRIMITIVE blocks attached to the wire, in creation order *)
Theorem C11_sinks_exact : forall ops, sinks_exact (run ops).
Proof. exact sinks_exact_run. Qed.

(* a BidirWire keeps all its drivers, in creation order, in `sources` and never has a `source`; an ordinary wire has no `sources` *)
Theorem C11_sources_exact : forall ops, sources_exact (run ops).
Proof. exact sources_exact_run. Qed.

(* ---- the call that would create the conflict raises ------------------------------------------------------ *)
(* only guard: the call names existing objects (the caller holds references to them) *)
Theorem C11_conflict_raises : forall ops o c,
  valid_op (run ops) o -> conflict_of (run ops) o = Some c -> snd (step (run ops) o) = Raise c.
Proof. exact conflict_raises_run. Qed.

(* ---- EVERY raising call leaves the netlist untouched, and the item its error names is registered ---------- *)
Theorem C11_raise_unchanged : forall ops o s' c,
  step (run ops) o = (s', Raise c) -> s' = run ops /\ names_existing (run ops) c.
Proof. exact raise_unchanged_run. Qed.

(* ---- the earlier driver / child / wire stays in place, for EVERY call (raising or not): every registered child,
   every registered source, and every _wires entry other than the moved wire's own is unchanged ----------------- *)
Theorem C11_earlier_stays : forall ops o,
  valid_op (run ops) o ->
  children_stay (run ops) (exec (run ops) o) /\
  drivers_stay (run ops) (exec (run ops) o) /\
  wires_stay (run ops) o (exec (run ops) o).
Proof. exact earlier_stays_run. Qed.

(* once registered, a driver / a child is never replaced by any later call *)
Theorem C11_driver_permanent : forall ops1 ops2 w q,
  w < nwire (run ops1) -> wsource (run ops1) w = Some q -> wsource (run (ops1 ++ ops2)) w = Some q.
Proof. exact driver_permanent_run. Qed.
Theorem C11_child_permanent : forall ops1 ops2 p n c,
  p < nobj (run ops1) -> tget (ochildren (run ops1) p) n = Some c ->
  tget (ochildren (run (ops1 ++ ops2)) p) n = Some c.
Proof. exact child_permanent_run. Qed.

(* ---- checkIntegrity ------------------------------------------------------------------------------------- *)
(* for ANY hierarchy whose children tables form a forest (e.g. one read off real py4hw objects): the check
   terminates and raises exactly when some block below h has an in- or out-port (inOutPorts are not visited) whose
   wire has no source, or an in-port whose wire's source port is in none of inPorts/outPorts/inOutPorts of its block *)
Theorem C11_integrity_iff : forall s h, tree_ok s -> h < nobj s ->
  checkIntegrity s h <> IFuel /\
  (checkIntegrity s h = IRaise <->
   exists o, below s h o /\
     ((exists q, In q (oin s o) /\ (undriven s q \/ stray_source s q)) \/
      (exists q, In q (oout s o) /\ undriven s q))).
Proof. exact integrity_iff. Qed.
Theorem C11_tree_ok_constructed : forall ops, tree_ok (run ops).
Proof. exact tree_ok_run. Qed.

(* for EVERY constructed netlist (inout drivers included): the check raises iff for some in- or out-port of a block of the
   hierarchy wire.getSource() yields no port (`undriven`: an ordinary wire without source -- or ANY BidirWire, whose
   getSource reads an attribute that does not exist), and accepts otherwise.  "Visited" ports are the inPorts and outPorts
   of the blocks reachable through children tables. *)
Theorem C11_integrity_iff_constructed : forall ops h,
  h < nobj (run ops) ->
  (checkIntegrity (run ops) h = IRaise <-> exists q, visited (run ops) h q /\ undriven (run ops) q) /\
  (checkIntegrity (run ops) h = IOk <-> forall q, visited (run ops) h q -> ~ undriven (run ops) q).
Proof. exact integrity_constructed. Qed.

(* in the property's own terms ("a wire that no block drives" = no_driver: no source, resp. empty sources): exact as long
   as no visited in/out port is attached to a BidirWire *)
Theorem C11_integrity_iff_no_driver : forall ops h,
  h < nobj (run ops) -> (forall q, visited (run ops) h q -> ~ on_bidir (run ops) q) ->
  (checkIntegrity (run ops) h = IRaise <-> exists q, visited (run ops) h q /\ no_driver (run ops) q) /\
  (checkIntegrity (run ops) h = IOk <-> forall q, visited (run ops) h q -> ~ no_driver (run ops) q).
Proof. exact integrity_spec_run. Qed.
(* without that guard the clause is FALSE (known finding F3): every port's wire has a driver, the check raises *)
Theorem C11_integrity_bidir_refuted :
  exists ops h, h < nobj (run ops) /\ checkIntegrity (run ops) h = IRaise /\
                forall q, q < nport (run ops) -> ~ no_driver (run ops) q.
Proof. exact integrity_bidir_refuted. Qed.

(* ---- the executable predicates the check evaluates on REAL states are the declarative ones -------------------- *)
Theorem C11_checked_predicates_exact : forall s,
  (single_driver_b s = true <-> single_driver s) /\ (unique_children_b s = true <-> unique_children s) /\
  (unique_wires_b s = true <-> unique_wires s) /\ (sinks_exact_b s = true <-> sinks_exact s) /\
  (all_registered_b s = true <-> all_registered s) /\ (sources_exact_b s = true <-> sources_exact s).
Proof. exact checked_predicates_exact. Qed.
Theorem C11_checked_frames_exact : forall s o s', unique_children s -> unique_wires s ->
  (children_stay_b s s' = true <-> children_stay s s') /\ (drivers_stay_b s s' = true <-> drivers_stay s s') /\
  (wires_stay_b s o s' = true <-> wires_stay s o s').
Proof. exact checked_frames_exact. Qed.
Theorem C11_checked_integrity_exact : forall s h, unique_children s -> h < nobj s ->
  (undriven_port_b s h = true <-> exists q, visited s h q /\ no_driver s q).
Proof. exact checked_integrity_exact. Qed.

(* ---- the witnesses of the two repaired defects, on the repaired model (they were `_refuted` theorems) -------- *)
(* a.rename('b') raises and changes nothing; a.rename('c') then moves only a (b stays); a.rename('b') still raises *)
Example C11_failed_rename_harmless :
  let s0 := run [NewLogic None 0%Z false; NewWire 0 1%Z 1%Z; NewWire 0 2%Z 1%Z] in
  let s := run ops_failed_rename in
  snd (step s0 (Rename 0 2%Z)) = Raise (CWire 0 2%Z) /\
  dump s = dump s0 /\
  snd (step s (Rename 0 3%Z)) = Ok /\
  tget (owires (exec s (Rename 0 3%Z)) 0) 2%Z = Some 1 /\ tget (owires (exec s (Rename 0 3%Z)) 0) 3%Z = Some 0 /\
  snd (step s (Rename 0 2%Z)) = Raise (CWire 0 2%Z) /\
  (* moving a wire onto its own slot is not a collision: rename to the current name, reparent to the current parent *)
  snd (step s (Rename 0 1%Z)) = Ok /\ snd (step s (Reparent 1 0)) = Ok /\ snd (step s (ReparentAndRename 1 0 2%Z)) = Ok /\
  dump (exec s (Reparent 1 0)) = dump s.
Proof. exact failed_rename_harmless. Qed.
(* a wire driven by an InOutPort of a primitive block and read by an in-port is accepted *)
Example C11_inout_driver_accepted : checkIntegrity (run ops_inout) 0 = IOk.
Proof. exact inout_driver_accepted. Qed.
(* scope of "visited": an InOutPort of a STRUCTURAL block on an undriven wire is not looked at (accepted) *)
Example C11_inout_port_not_visited :
  checkIntegrity (run ops_inout_unvisited) 0 = IOk /\ wsource (run ops_inout_unvisited) 0 = None /\
  oinout (run ops_inout_unvisited) 1 = [0] /\ pwire (run ops_inout_unvisited) 0 = 0.
Proof. exact inout_port_not_visited. Qed.

(* ---- non-vacuity of the hypotheses ---------------------------------------------------------------------- *)
Definition ex_ops : list op :=
  [NewLogic None 0%Z false; NewWire 0 0%Z 8%Z; NewWire 0 1%Z 8%Z; NewLogic (Some 0) 1%Z true; NewLogic (Some 0) 2%Z true;
   AddOut 1 0%Z 0; AddIn 2 0%Z 0; AddOut 2 1%Z 1].
(* a second driver, a duplicate child, a duplicate wire and colliding rename / reparentAndRename are conflicts, the
   guard holds, and the model raises *)
Example C11_conflicts_nonvacuous :
  Forall (fun '(o, c) => valid_op (run ex_ops) o /\ conflict_of (run ex_ops) o = Some c /\ snd (step (run ex_ops) o) = Raise c)
         [(AddOut 2 5%Z 0, CDriver 0); (NewLogic (Some 0) 2%Z false, CChild 0 2%Z); (NewWire 0 1%Z 1%Z, CWire 0 1%Z);
          (Rename 0 1%Z, CWire 0 1%Z); (AddInOut 1 0%Z 1, CDriver 1); (ReparentAndRename 1 0 0%Z, CWire 0 0%Z);
          (NewBidir 0 1%Z 1%Z, CWire 0 1%Z)].
Proof. vm_compute. repeat constructor; lia. Qed.
Example C11_integrity_nonvacuous :
  checkIntegrity (run ex_ops) 0 = IOk /\
  checkIntegrity (run (ex_ops ++ [NewWire 0 2%Z 1%Z; AddIn 1 1%Z 2])) 0 = IRaise.
Proof. vm_compute; auto. Qed.

Print Assumptions C11_single_driver.
Print Assumptions C11_at_most_one_driver.
Print Assumptions C11_unique_children.
Print Assumptions C11_unique_wires.
Print Assumptions C11_wires_registered.
Print Assumptions C11_sinks_exact.
Print Assumptions C11_sources_exact.
Print Assumptions C11_conflict_raises.
Print Assumptions C11_raise_unchanged.
Print Assumptions C11_earlier_stays.
Print Assumptions C11_driver_permanent.
Print Assumptions C11_child_permanent.
Print Assumptions C11_integrity_iff.
Print Assumptions C11_tree_ok_constructed.
Print Assumptions C11_integrity_iff_constructed.
Print Assumptions C11_integrity_iff_no_driver.
Print Assumptions C11_integrity_bidir_refuted.
Print Assumptions C11_checked_predicates_exact.
Print Assumptions C11_checked_frames_exact.
Print Assumptions C11_checked_integrity_exact.
