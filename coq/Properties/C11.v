(* C11 -- Ill-formed netlists are rejected when they are built or checked.
   Statements only; proofs in Proofs/C11/*.v.  The model (Model/Build.v) is hand-written from py4hw/base.py and
   py4hw/debug.py (as of /repo commits a702577 + 0cca5f4 and 0845e1f) and is run against the real classes on every check
   (py/props/c11.py): same operation sequences, compared after every call on raise/no-raise and on every attribute
   (children, _wires, port lists, source, sinks).
   `run ops` = the state after executing ANY list of construction calls from the empty heap, legal or not. *)
From Coq Require Import ZArith List Bool Arith Lia.
From V Require Import Model.Build Spec.C11 Proofs.C11.Registered Proofs.C11.Integrity Proofs.C11.Main.
From V Require Import Model.BuildIface Proofs.C11.Interface.
Import ListNotations.

(* ---- invariants over every construction sequence ------------------------------------------------------- *)
(* wires are ordinary Wires or BidirWires (same _wires tables, same rename/reparent code, duplicated in the class).
   ORDINARY wire: the out/inout ports of primitive blocks attached to it are exactly its registered source: at most one *)
Theorem C11_single_driver : forall ops, single_driver (run ops).
Proof. exact single_driver_run. Qed.
Theorem C11_at_most_one_driver : forall ops w q q',
  w < nwire (run ops) -> wbidir (run ops) w = false -> driver (run ops) q w -> driver (run ops) q' w -> q = q'.
Proof. exact one_driver_run. Qed.
(* names in a children table are distinct; c is registered under (p, n) iff c.parent = p and c.name = n *)
Theorem C11_unique_children : forall ops, unique_children (run ops).
Proof. exact unique_children_run. Qed.
(* names in a _wires table are distinct; the wire stored under (p, n) has parent p and name n *)
Theorem C11_unique_wires : forall ops, unique_wires (run ops).
Proof. exact unique_wires_run. Qed.
(* ... and conversely EVERY created wire is stored in its parent's table under its own name, whatever calls
   (failed renames / reparents included) were made: no wire is ever left outside the tables *)
Theorem C11_wires_registered : forall ops, all_registered (run ops).
Proof. exact wires_registered_run. Qed.
(* wire.sinks is exactly the list of in / inout ports of PRIMITIVE blocks attached to the wire, in creation order *)
Theorem C11_sinks_exact : forall ops, sinks_exact (run ops).
Proof. exact sinks_exact_run. Qed.

(* a BidirWire keeps all its drivers, in creation order, in `sources` and never has a `source`; an ordinary wire has no `sources` *)
Theorem C11_sources_exact : forall ops, sources_exact (run ops).
Proof. exact sources_exact_run. Qed.

(* ---- the call that would create the conflict raises ------------------------------------------------------ *)
(* only guard: the call names existing objects (the caller holds references to them) *)
Theorem C11_conflict_raises : forall ops o c,
  valid_op (run ops) o -> conflict_of (run ops) o = Some c -> snd (step (run ops) o) = Raise c.
Proof. exact conflict_raises_run. Qed.

(* ---- EVERY raising call leaves the netlist untouched, and the item its error names is registered ---------- *)
Theorem C11_raise_unchanged : forall ops o s' c,
  step (run ops) o = (s', Raise c) -> s' = run ops /\ names_existing (run ops) c.
Proof. exact raise_unchanged_run. Qed.

(* ---- the earlier driver / child / wire stays in place, for EVERY call (raising or not): every registered child,
   every registered source, and every _wires entry other than the moved wire's own is unchanged ----------------- *)
Theorem C11_earlier_stays : forall ops o,
  valid_op (run ops) o ->
  children_stay (run ops) (exec (run ops) o) /\
  drivers_stay (run ops) (exec (run ops) o) /\
  wires_stay (run ops) o (exec (run ops) o).
Proof. exact earlier_stays_run. Qed.

(* once registered, a driver / a child is never replaced by any later call *)
Theorem C11_driver_permanent : forall ops1 ops2 w q,
  w < nwire (run ops1) -> wsource (run ops1) w = Some q -> wsource (run (ops1 ++ ops2)) w = Some q.
Proof. exact driver_permanent_run. Qed.
Theorem C11_child_permanent : forall ops1 ops2 p n c,
  p < nobj (run ops1) -> tget (ochildren (run ops1) p) n = Some c ->
  tget (ochildren (run (ops1 ++ ops2)) p) n = Some c.
Proof. exact child_permanent_run. Qed.

(* ---- checkIntegrity ------------------------------------------------------------------------------------- *)
(* for ANY hierarchy whose children tables form a forest (e.g. one read off real py4hw objects): the check
   terminates and raises exactly when some block below h has an in- or out-port (inOutPorts are not visited) whose
   wire has no source, or an in-port whose wire's source port is in none of inPorts/outPorts/inOutPorts of its block *)
Theorem C11_integrity_iff : forall s h, tree_ok s -> h < nobj s ->
  checkIntegrity s h <> IFuel /\
  (checkIntegrity s h = IRaise <->
   exists o, below s h o /\
     ((exists q, In q (oin s o) /\ (undriven s q \/ stray_source s q)) \/
      (exists q, In q (oout s o) /\ undriven s q))).
Proof. exact integrity_iff. Qed.
Theorem C11_tree_ok_constructed : forall ops, tree_ok (run ops).
Proof. exact tree_ok_run. Qed.

(* for EVERY constructed netlist (inout drivers included): the check raises iff for some in- or out-port of a block of the
   hierarchy wire.getSource() yields no port (`undriven`: an ordinary wire without source -- or ANY BidirWire, whose
   getSource reads an attribute that does not exist), and accepts otherwise.  "Visited" ports are the inPorts and outPorts
   of the blocks reachable through children tables. *)
Theorem C11_integrity_iff_constructed : forall ops h,
  h < nobj (run ops) ->
  (checkIntegrity (run ops) h = IRaise <-> exists q, visited (run ops) h q /\ undriven (run ops) q) /\
  (checkIntegrity (run ops) h = IOk <-> forall q, visited (run ops) h q -> ~ undriven (run ops) q).
Proof. exact integrity_constructed. Qed.

(* in the property's own terms ("a wire that no block drives" = no_driver: no source, resp. empty sources): exact as long
   as no visited in/out port is attached to a BidirWire *)
Theorem C11_integrity_iff_no_driver : forall ops h,
  h < nobj (run ops) -> (forall q, visited (run ops) h q -> ~ on_bidir (run ops) q) ->
  (checkIntegrity (run ops) h = IRaise <-> exists q, visited (run ops) h q /\ no_driver (run ops) q) /\
  (checkIntegrity (run ops) h = IOk <-> forall q, visited (run ops) h q -> ~ no_driver (run ops) q).
Proof. exact integrity_spec_run. Qed.
(* without that guard the clause is FALSE (known finding F3): every port's wire has a driver, the check raises *)
Theorem C11_integrity_bidir_refuted :
  exists ops h, h < nobj (run ops) /\ checkIntegrity (run ops) h = IRaise /\
                forall q, q < nport (run ops) -> ~ no_driver (run ops) q.
Proof. exact integrity_bidir_refuted. Qed.

(* ---- the executable predicates the check evaluates on REAL states are the declarative ones -------------------- *)
Theorem C11_checked_predicates_exact : forall s,
  (single_driver_b s = true <-> single_driver s) /\ (unique_children_b s = true <-> unique_children s) /\
  (unique_wires_b s = true <-> unique_wires s) /\ (sinks_exact_b s = true <-> sinks_exact s) /\
  (all_registered_b s = true <-> all_registered s) /\ (sources_exact_b s = true <-> sources_exact s).
Proof. exact checked_predicates_exact. Qed.
Theorem C11_checked_frames_exact : forall s o s', unique_children s -> unique_wires s ->
  (children_stay_b s s' = true <-> children_stay s s') /\ (drivers_stay_b s s' = true <-> drivers_stay s s') /\
  (wires_stay_b s o s' = true <-> wires_stay s o s').
Proof. exact checked_frames_exact. Qed.
Theorem C11_checked_integrity_exact : forall s h, unique_children s -> h < nobj s ->
  (undriven_port_b s h = true <-> exists q, visited s h q /\ no_driver s q).
Proof. exact checked_integrity_exact. Qed.

(* ---- the witnesses of the two repaired defects, on the repaired model (they were `_refuted` theorems) -------- *)
(* a.rename('b') raises and changes nothing; a.rename('c') then moves only a (b stays); a.rename('b') still raises *)
Example C11_failed_rename_harmless :
  let s0 := run [NewLogic None 0%Z false; NewWire 0 1%Z 1%Z; NewWire 0 2%Z 1%Z] in
  let s := run ops_failed_rename in
  snd (step s0 (Rename 0 2%Z)) = Raise (CWire 0 2%Z) /\
  dump s = dump s0 /\
  snd (step s (Rename 0 3%Z)) = Ok /\
  tget (owires (exec s (Rename 0 3%Z)) 0) 2%Z = Some 1 /\ tget (owires (exec s (Rename 0 3%Z)) 0) 3%Z = Some 0 /\
  snd (step s (Rename 0 2%Z)) = Raise (CWire 0 2%Z) /\
  (* moving a wire onto its own slot is not a collision: rename to the current name, reparent to the current parent *)
  snd (step s (Rename 0 1%Z)) = Ok /\ snd (step s (Reparent 1 0)) = Ok /\ snd (step s (ReparentAndRename 1 0 2%Z)) = Ok /\
  dump (exec s (Reparent 1 0)) = dump s.
Proof. exact failed_rename_harmless. Qed.
(* a wire driven by an InOutPort of a primitive block and read by an in-port is accepted *)
Example C11_inout_driver_accepted : checkIntegrity (run ops_inout) 0 = IOk.
Proof. exact inout_driver_accepted. Qed.
(* scope of "visited": an InOutPort of a STRUCTURAL block on an undriven wire is not looked at (accepted) *)
Example C11_inout_port_not_visited :
  checkIntegrity (run ops_inout_unvisited) 0 = IOk /\ wsource (run ops_inout_unvisited) 0 = None /\
  oinout (run ops_inout_unvisited) 1 = [0] /\ pwire (run ops_inout_unvisited) 0 = 0.
Proof. exact inout_port_not_visited. Qed.

(* ---- non-vacuity of the hypotheses ---------------------------------------------------------------------- *)
Definition ex_ops : list op :=
  [NewLogic None 0%Z false; NewWire 0 0%Z 8%Z; NewWire 0 1%Z 8%Z; NewLogic (Some 0) 1%Z true; NewLogic (Some 0) 2%Z true;
   AddOut 1 0%Z 0; AddIn 2 0%Z 0; AddOut 2 1%Z 1].
(* a second driver, a duplicate child, a duplicate wire and colliding rename / reparentAndRename are conflicts, the
   guard holds, and the model raises *)
Example C11_conflicts_nonvacuous :
  Forall (fun '(o, c) => valid_op (run ex_ops) o /\ conflict_of (run ex_ops) o = Some c /\ snd (step (run ex_ops) o) = Raise c)
         [(AddOut 2 5%Z 0, CDriver 0); (NewLogic (Some 0) 2%Z false, CChild 0 2%Z); (NewWire 0 1%Z 1%Z, CWire 0 1%Z);
          (Rename 0 1%Z, CWire 0 1%Z); (AddInOut 1 0%Z 1, CDriver 1); (ReparentAndRename 1 0 0%Z, CWire 0 0%Z);
          (NewBidir 0 1%Z 1%Z, CWire 0 1%Z)].
Proof. vm_compute. repeat constructor; lia. Qed.
Example C11_integrity_nonvacuous :
  checkIntegrity (run ex_ops) 0 = IOk /\
  checkIntegrity (run (ex_ops ++ [NewWire 0 2%Z 1%Z; AddIn 1 1%Z 2])) 0 = IRaise.
Proof. vm_compute; auto. Qed.

(* ---- interface calls (session 5; Model/BuildIface.v, Proofs/C11/Interface.v) ------------------------------------------
   Logic.addInterfaceSource / addInterfaceSink (py4hw/base.py 102-171) are loops of OutPort / InPort constructions, i.e.
   DERIVED lists of the calls AddOut / AddIn above (add_interface_source / add_interface_sink), executed until the first
   one that raises (run_abort).  `irun xs` = the state after ANY list of calls, primitive (Prim o) or interface calls
   (AddIfaceSource o prefix i / AddIfaceSink o prefix i), legal or not, complete or aborted half-way. *)

(* every such state is reached by some list of primitive calls: so EVERY invariant above holds of it *)
Theorem C11_interface_ops_preserve_invariants : forall xs,
  (exists ops, irun xs = run ops) /\
  single_driver (irun xs) /\ unique_children (irun xs) /\ unique_wires (irun xs) /\ all_registered (irun xs) /\
  sinks_exact (irun xs) /\ sources_exact (irun xs) /\ tree_ok (irun xs) /\
  (forall w q q', w < nwire (irun xs) -> wbidir (irun xs) w = false ->
                  driver (irun xs) q w -> driver (irun xs) q' w -> q = q').
Proof. exact interface_ops_preserve_invariants. Qed.

(* a source call that returned on a PRIMITIVE block registered that block's new out-port as THE source of every
   sourceToSink wire that is an ordinary Wire (the sink call: of every sinkToSource wire) *)
Theorem C11_interface_source_call_registers : forall xs A preA i s1,
  istep (irun xs) (AddIfaceSource A preA i) = (s1, Ok) -> oprim (irun xs) A = true ->
  forall sg w, In (sg, w) (sourceToSink i) -> wbidir (irun xs) w = false ->
  w < nwire (irun xs) /\ A < nobj (irun xs) /\
  exists qa, nport (irun xs) <= qa < nport s1 /\ prow s1 qa = (POut, A, port_name preA sg, w) /\ wsource s1 w = Some qa.
Proof. exact source_call_registers. Qed.
Theorem C11_interface_sink_call_registers : forall xs B preB i s1,
  istep (irun xs) (AddIfaceSink B preB i) = (s1, Ok) -> oprim (irun xs) B = true ->
  forall sg w, In (sg, w) (sinkToSource i) -> wbidir (irun xs) w = false ->
  w < nwire (irun xs) /\ B < nobj (irun xs) /\
  exists qb, nport (irun xs) <= qb < nport s1 /\ prow s1 qb = (POut, B, port_name preB sg, w) /\ wsource s1 w = Some qb.
Proof. exact sink_call_registers. Qed.

(* a SECOND SOURCE on the same interface is rejected exactly like a second driver.  PRIMITIVE blocks A, C (they have
   propagate() / clock()): A's source call returned, then ANY calls ys; if some sourceToSink wire is an ordinary Wire,
   C's source call raises Wire.setSource's error for a sourceToSink wire; and if the FIRST sourceToSink wire is an ordinary
   Wire the call raises at once and changes nothing (like C11_raise_unchanged).
   Guards: the calls name existing objects (A's call returning already implies it for A and the sourceToSink wires). *)
Theorem C11_interface_second_source_rejected : forall xs ys A C preA preC i s1 sg w,
  istep (irun xs) (AddIfaceSource A preA i) = (s1, Ok) ->
  oprim (irun xs) A = true -> C < nobj (irun xs) -> oprim (irun xs) C = true ->
  (forall e, In e (sinkToSource i) -> snd e < nwire (irun xs)) ->
  In (sg, w) (sourceToSink i) -> wbidir (irun xs) w = false ->
  let s2 := irun (xs ++ AddIfaceSource A preA i :: ys) in
  (exists sg' w', In (sg', w') (sourceToSink i) /\ snd (istep s2 (AddIfaceSource C preC i)) = Raise (CDriver w')) /\
  (forall rest, sourceToSink i = (sg, w) :: rest -> istep s2 (AddIfaceSource C preC i) = (s2, Raise (CDriver w))).
Proof. exact second_source_rejected. Qed.

(* the same from ANY constructed state in which a sourceToSink (resp. sinkToSource) wire has a registered source, however
   it got it (addOut of another block, another interface sharing the wire through add...Ref): the call of a primitive
   block raises for a wire of that list, and that wire is driven in the state the call leaves behind *)
Theorem C11_interface_source_on_driven_rejected : forall xs C preC i sg w q,
  let s := irun xs in
  C < nobj s -> oprim s C = true ->
  (forall e, In e (sourceToSink i ++ sinkToSource i) -> snd e < nwire s) ->
  In (sg, w) (sourceToSink i) -> wbidir s w = false -> wsource s w = Some q ->
  (exists sg' w' q', In (sg', w') (sourceToSink i) /\ wbidir s w' = false /\
                     wsource (iexec s (AddIfaceSource C preC i)) w' = Some q' /\
                     snd (istep s (AddIfaceSource C preC i)) = Raise (CDriver w')) /\
  (forall rest, sourceToSink i = (sg, w) :: rest -> istep s (AddIfaceSource C preC i) = (s, Raise (CDriver w))).
Proof. exact source_on_driven_rejected. Qed.
Theorem C11_interface_sink_on_driven_rejected : forall xs C preC i sg w q,
  let s := irun xs in
  C < nobj s -> oprim s C = true ->
  (forall e, In e (sourceToSink i ++ sinkToSource i) -> snd e < nwire s) ->
  In (sg, w) (sinkToSource i) -> wbidir s w = false -> wsource s w = Some q ->
  exists sg' w' q', In (sg', w') (sinkToSource i) /\ wbidir s w' = false /\
                    wsource (iexec s (AddIfaceSink C preC i)) w' = Some q' /\
                    snd (istep s (AddIfaceSink C preC i)) = Raise (CDriver w').
Proof. exact sink_on_driven_rejected. Qed.

(* STRUCTURAL block (no propagate / clock), as the model has it for addOut: its ports never register a source, so its
   interface calls are ALWAYS accepted -- two structural sources on one interface included -- and leave source, sinks and
   sources of every wire as they were (connectivity of structural ports is resolved by the flattening, outside C11) *)
Theorem C11_interface_structural_accepted : forall xs C preC i,
  let s := irun xs in
  C < nobj s -> oprim s C = false ->
  (forall e, In e (sourceToSink i ++ sinkToSource i) -> snd e < nwire s) ->
  (snd (istep s (AddIfaceSource C preC i)) = Ok /\
   forall x, wsource (iexec s (AddIfaceSource C preC i)) x = wsource s x /\
             wsinks (iexec s (AddIfaceSource C preC i)) x = wsinks s x /\
             wsources (iexec s (AddIfaceSource C preC i)) x = wsources s x) /\
  (snd (istep s (AddIfaceSink C preC i)) = Ok /\
   forall x, wsource (iexec s (AddIfaceSink C preC i)) x = wsource s x /\
             wsinks (iexec s (AddIfaceSink C preC i)) x = wsinks s x /\
             wsources (iexec s (AddIfaceSink C preC i)) x = wsources s x).
Proof. exact structural_interface_accepted. Qed.

(* non-vacuity, on an AXI4-Stream-like interface (tvalid, tdata source->sink on wires 0, 2; tready sink->source on wire 1;
   Model/BuildIface.v axis_pre / axis): producer block 1 (prefix 'n5'), consumer block 2 (empty prefix, as Axi2Reg passes);
   the hypotheses of every theorem above are met; a second primitive source (block 3) is rejected at tvalid and changes
   nothing; a second primitive sink is rejected at tready AFTER its two in-ports were created; structural blocks 4 and 5
   are both accepted as sources and register nothing *)
Example C11_interface_axis_example :
  let s := irun axis_pre in
  let s2 := irun (axis_pre ++ axis_calls) in
  istep s (AddIfaceSource 1 (Some 5%Z) axis) = (iexec s (AddIfaceSource 1 (Some 5%Z) axis), Ok) /\
  istep (iexec s (AddIfaceSource 1 (Some 5%Z) axis)) (AddIfaceSink 2 None axis) = (s2, Ok) /\
  nport s = 0 /\
  map (prow s2) (seq 0 (nport s2)) =
    [(POut, 1, 6000%Z, 0); (POut, 1, 6002%Z, 2); (PIn, 1, 6001%Z, 1);
     (PIn, 2, 0%Z, 0); (PIn, 2, 2%Z, 2); (POut, 2, 1%Z, 1)] /\
  oout s2 1 = [0; 1] /\ oin s2 1 = [2] /\ oin s2 2 = [3; 4] /\ oout s2 2 = [5] /\
  map (wsource s2) [0; 1; 2] = [Some 0; Some 5; Some 1] /\ map (wsinks s2) [0; 1; 2] = [[3]; [2]; [4]] /\
  checkIntegrity s2 0 = IOk /\
  istep s2 (AddIfaceSource 3 (Some 9%Z) axis) = (s2, Raise (CDriver 0)) /\
  snd (istep s2 (AddIfaceSink 3 (Some 9%Z) axis)) = Raise (CDriver 1) /\
  nport (iexec s2 (AddIfaceSink 3 (Some 9%Z) axis)) = 8 /\
  snd (istep s2 (AddIfaceSource 4 (Some 9%Z) axis)) = Ok /\
  snd (istep (iexec s2 (AddIfaceSource 4 (Some 9%Z) axis)) (AddIfaceSource 5 (Some 9%Z) axis)) = Ok /\
  map (wsource (iexec (iexec s2 (AddIfaceSource 4 (Some 9%Z) axis)) (AddIfaceSource 5 (Some 9%Z) axis))) [0; 1; 2] =
    [Some 0; Some 5; Some 1].
Proof. exact axis_example. Qed.
(* the interface CALL, unlike each primitive call (C11_raise_unchanged), is NOT atomic: tdata (wire 2) is already driven by
   block 3; block 1's source call raises at tdata, but the tvalid out-port it created first stays and is now the registered
   source of wire 0 (same on the real classes: docs/C11.md, finding F-iface) *)
Example C11_interface_source_conflict_not_atomic :
  let s := irun (axis_pre ++ [Prim (AddOut 3 0%Z 2)]) in
  let s' := iexec s (AddIfaceSource 1 None axis) in
  snd (istep s (AddIfaceSource 1 None axis)) = Raise (CDriver 2) /\
  nport s = 1 /\ nport s' = 2 /\ prow s' 1 = (POut, 1, 0%Z, 0) /\ oout s' 1 = [1] /\
  wsource s 0 = None /\ wsource s' 0 = Some 1 /\ wsource s' 2 = Some 0.
Proof. exact source_conflict_not_atomic. Qed.

Print Assumptions C11_single_driver.
Print Assumptions C11_at_most_one_driver.
Print Assumptions C11_unique_children.
Print Assumptions C11_unique_wires.
Print Assumptions C11_wires_registered.
Print Assumptions C11_sinks_exact.
Print Assumptions C11_sources_exact.
Print Assumptions C11_conflict_raises.
Print Assumptions C11_raise_unchanged.
Print Assumptions C11_earlier_stays.
Print Assumptions C11_driver_permanent.
Print Assumptions C11_child_permanent.
Print Assumptions C11_integrity_iff.
Print Assumptions C11_tree_ok_constructed.
Print Assumptions C11_integrity_iff_constructed.
Print Assumptions C11_integrity_iff_no_driver.
Print Assumptions C11_integrity_bidir_refuted.
Print Assumptions C11_checked_predicates_exact.
Print Assumptions C11_checked_frames_exact.
Print Assumptions C11_checked_integrity_exact.
Print Assumptions C11_interface_ops_preserve_invariants.
Print Assumptions C11_interface_source_call_registers.
Print Assumptions C11_interface_sink_call_registers.
Print Assumptions C11_interface_second_source_rejected.
Print Assumptions C11_interface_source_on_driven_rejected.
Print Assumptions C11_interface_sink_on_driven_rejected.
Print Assumptions C11_interface_structural_accepted.
