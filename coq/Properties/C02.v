(* C02 — Python-to-Verilog transpilation preserves the behaviour of behavioural blocks.
   Translation validation: the validator Model/Tv.v (tv, tv_stmt, tv_block) is PROVED sound here; per run it is applied to
   the ast of every real method and the parsed text the real transpiler returned for it (py/props/c02.py).
   Statements only; proofs are in Proofs/C02/.
   Domain: PySem.pyev / pyexec / py_sim under the guard g_dom are defined iff the values at the positions where fixed-width
   arithmetic is not a ring homomorphism of Z (operands of // % >> comparisons and/or/not, conditions, shift amounts,
   values stored in integer variables) lie in [0, 2^31); this is implied by "all intermediate values in [0, 2^31)". *)
From V Require Import Base.Bits Model.VSyntax Model.VSem Model.PySyntax Model.PySem Model.Tv Spec.C02
  Proofs.C02.Expr Proofs.C02.Stmt Proofs.C02.Block Proofs.C02.Comb Proofs.C02.Refuted Proofs.C02.Main Proofs.C02.Refusal Proofs.C02.Prefix Proofs.C02.Domain.
Local Open Scope string_scope.
Local Open Scope Z_scope.

(* ---- expressions: in any context (W, sg) that IEEE 1364 can give the expression (W at least its self-determined size, a signed
   context only if the expression is signed), VSem's value is Python's value modulo 2^W ... *)
Theorem C02_expr_sound : forall E st env pe re W sg v,
  rel E st env -> tv E false W sg pe re = true -> pyev g_dom st pe = Some v -> rsize re <= W -> (sg = true -> rsigned re = true) ->
  reval env W sg re = v mod 2 ^ W.
Proof. exact expr_sound. Qed.
(* ... hence Python's value itself when that is in the domain and the context has at least 31 bits (every assignment to an integer) *)
Theorem C02_expr_exact : forall E st env pe re W sg v,
  rel E st env -> tv E false W sg pe re = true -> pyev g_dom st pe = Some v -> rsize re <= W -> (sg = true -> rsigned re = true) ->
  g_dom v = true -> 31 <= W -> reval env W sg re = v.
Proof. exact expr_exact. Qed.
(* condition position (if / elif / ternary test / operands of and or not): same truth value *)
Theorem C02_cond_sound : forall E st env pe re v,
  rel E st env -> tv_cond E pe re = true -> pyev g_dom st pe = Some v -> g_dom v = true -> (rself env re =? 0) = (v =? 0).
Proof. exact cond_sound_top. Qed.

(* ---- statements of a clock() body: blocking `=` == attribute / local update, `<=` == prepare (queued in order) *)
Theorem C02_stmt_sound : forall E, tv_kind E = KClock -> forall ps rs st s st',
  tv_stmt E ps rs = true -> sinv E st s -> pyexec g_dom (tv_outs E) ps st = Some st' -> sinv E st' (exec rs s).
Proof. exact stmt_sound. Qed.

(* ---- whole clock() blocks: for EVERY stimulus that pokes input ports and stays in the domain, the elaborated module run by the
   cycle semantics (power-up, settle, posedge processes, NBA queue, settle) yields exactly Python's trajectory of the observed
   output ports and integer attributes (row 0 = after power-up / construction), and every settle reaches its fixpoint. *)
Theorem C02_block_sound : forall b m, b_kind b = KClock -> tv_block b m = true ->
  exists f, elaborate [m] 200 (m_name m) = inr f /\
    forall ports attrs steps tr, obs_ok b f ports attrs -> pokes_inputs b steps ->
      py_sim g_dom b steps ports attrs = (tr, true) -> vsim f (flat_clk f) steps (ports ++ attrs) = (tr, true).
Proof. exact block_sound. Qed.

(* ---- whole propagate() blocks (puts emitted as `<=` inside `always @*`, iterated by VSem to a fixpoint): for EVERY stimulus of
   input pokes (no clock cycles) that stays in the domain, the fixpoint is reached after one pass, the stability flag is set, and
   the output ports carry exactly Python's values after propagate() — including row 0 (Simulator.__init__ propagates once). *)
Theorem C02_comb_block_sound : forall b m, b_kind b = KPropagate -> tv_block b m = true ->
  exists f, elaborate [m] 200 (m_name m) = inr f /\
    forall clkname ports steps tr, obs_okc b f ports -> pokes_inputs b steps -> comb_steps steps ->
      py_sim g_dom b steps ports [] = (tr, true) -> vsim f clkname steps (ports ++ []) = (tr, true).
Proof. exact comb_sound. Qed.

Example C02_comb_nonvacuous :
  match tgt_CombMux with m :: _ => tv_block src_CombMux m = true | [] => False end /\
  (exists tr, py_sim g_dom src_CombMux mux_steps ["o"] [] = (tr, true) /\ length tr = 4%nat) /\
  (forall f, elaborate tgt_CombMux 200 "CombMux" = inr f -> obs_okc src_CombMux f ["o"]) /\
  (pokes_inputs src_CombMux mux_steps /\ comb_steps mux_steps).
Proof. exact (conj mux_validated (conj mux_in_domain (conj mux_obs mux_steps_ok))). Qed.

(* non-vacuity: a real transpiler output is accepted, a concrete stimulus satisfies every hypothesis *)
Example C02_block_nonvacuous :
  match tgt_LastWriteWins with m :: _ => tv_block src_LastWriteWins m = true | [] => False end /\
  py_sim g_dom src_LastWriteWins lww_steps ["o"] ["s"] = ([[0; 0]; [6; 1]; [63; 1]; [9; 0]], true) /\
  pokes_inputs src_LastWriteWins lww_steps /\
  (forall f, elaborate tgt_LastWriteWins 200 "LastWriteWins" = inr f -> obs_ok src_LastWriteWins f ["o"] ["s"]) /\
  match tgt_MatchFsm with m :: _ => tv_block src_MatchFsm m = true | [] => False end.
Proof. exact (conj lww_validated (conj lww_in_domain (conj lww_pokes (conj lww_obs matchfsm_validated)))). Qed.

(* ---- silent mistranslations present at the pinned commit (known findings; reproduced on the real transpiler by every run) *)
Theorem C02_refuted_narrow : refutes src_NarrowCond tgt_NarrowCond "NarrowCond" [([("a", 1); ("b", 1)], 1%nat)].
Proof. exact narrow_cond_refuted. Qed.
Theorem C02_refuted_narrow_shift : refutes src_NarrowShift tgt_NarrowShift "NarrowShift" [([("a", 139); ("b", 234)], 1%nat)].
Proof. exact narrow_shift_refuted. Qed.
(* C02-boolop-value: repaired in /repo, switched by fixes/C02_switch.py *)
(* C02-cmp-rhs: repaired in /repo, switched by fixes/C02_switch.py *)
Theorem C02_repaired_cmp_rhs : match tgt_CmpRhs with m :: _ => tv_block src_CmpRhs m = true | [] => False end.
Proof. exact cmp_rhs_repaired. Qed.
(* C02-portname: repaired in /repo, switched by fixes/C02_switch.py *)
Theorem C02_repaired_portname : match tgt_PortName with m :: _ => tv_block src_PortName m = true | [] => False end.
Proof. exact portname_repaired. Qed.

(* ---- session 5 ---------------------------------------------------------------------------------------------------------- *)
(* ---- the refusal clause: a method body with a construct outside the subset ANYWHERE in it (has_unsup: a PUnsupported /
   PSUnsupported node of the dumped ast, executed or not) is accepted by the validator for NO emitted module — clock() and
   propagate() blocks alike (tv_block is the validator of both kinds).  So whatever text the transpiler returns for such a
   method is reported by the check; only refusing (raising) is a correct answer. *)
Theorem C02_unsupported_never_validated : forall b m, has_unsup (b_body b) = true -> tv_block b m = false.
Proof. exact unsupported_never_validated. Qed.
(* the hypothesis is satisfiable by a block whose unsupported node sits in a branch a concrete in-domain history never executes
   (Python's semantics is defined on it, yet no module validates); the accepted examples have no such node *)
Example C02_unsupported_example :
  has_unsup (b_body src_WithUnsupported) = true /\
  py_sim g_dom src_WithUnsupported [([("a", 5); ("b", 1)], 2%nat)] ["o"] ["s"] = ([[0; 0]; [5; 0]], true) /\
  has_unsup (b_body src_LastWriteWins) = false /\ has_unsup (b_body src_MatchFsm) = false /\ has_unsup (b_body src_CombMux) = false.
Proof. exact (conj with_unsupported_has (conj with_unsupported_runs accepted_have_none)). Qed.

(* ---- histories that leave the domain: for ANY stimulus of input pokes, py_sim g_dom returns Python's trajectory up to the
   first step that is undefined under the guard (ok tells whether the end was reached); the Verilog trajectory of a validated
   block starts with exactly these rows: agreement on the longest in-domain prefix of every history. *)
Theorem C02_block_prefix_sound : forall b m, b_kind b = KClock -> tv_block b m = true ->
  exists f, elaborate [m] 200 (m_name m) = inr f /\
    forall ports attrs steps tr ok, obs_ok b f ports attrs -> pokes_inputs b steps ->
      py_sim g_dom b steps ports attrs = (tr, ok) ->
      exists vtr vok, vsim f (flat_clk f) steps (ports ++ attrs) = (vtr, vok) /\ firstn (length tr) vtr = tr.
Proof. exact block_prefix_sound. Qed.
Theorem C02_comb_block_prefix_sound : forall b m, b_kind b = KPropagate -> tv_block b m = true ->
  exists f, elaborate [m] 200 (m_name m) = inr f /\
    forall clkname ports steps tr ok, obs_okc b f ports -> pokes_inputs b steps -> comb_steps steps ->
      py_sim g_dom b steps ports [] = (tr, ok) ->
      exists vtr vok, vsim f clkname steps (ports ++ []) = (vtr, vok) /\ firstn (length tr) vtr = tr.
Proof. exact comb_prefix_sound. Qed.
(* non-vacuity, on real transpiler outputs whose history LEAVES the domain (ok = false): the hypotheses hold, the Verilog rows
   start with Python's prefix, and the first row after it differs from Python's — nothing more can be claimed *)
Example C02_block_prefix_nonvacuous : exists f,
  elaborate [mod_Wide32] 200 (m_name mod_Wide32) = inr f /\ b_kind src_Wide32 = KClock /\ tv_block src_Wide32 mod_Wide32 = true /\
  obs_ok src_Wide32 f ["o"] ["s"] /\ pokes_inputs src_Wide32 wide_steps /\
  py_sim g_dom src_Wide32 wide_steps ["o"] ["s"] = ([[0; 1]; [16666; 50000]], false) /\
  vsim f (flat_clk f) wide_steps (["o"] ++ ["s"]) = ([[0; 1]; [16666; 50000]; [3696644864; 2500000000]], true).
Proof. exact wide_prefix_example. Qed.
Example C02_comb_prefix_nonvacuous : exists f,
  elaborate [mod_CombWide] 200 (m_name mod_CombWide) = inr f /\ b_kind src_CombWide = KPropagate /\ tv_block src_CombWide mod_CombWide = true /\
  obs_okc src_CombWide f ["o"] /\ pokes_inputs src_CombWide combwide_steps /\ comb_steps combwide_steps /\
  py_sim g_dom src_CombWide combwide_steps ["o"] [] = ([[0]; [11]], false) /\
  py_sim g_all src_CombWide combwide_steps ["o"] [] = ([[0]; [11]; [7]; [4]], true) /\
  vsim f "" combwide_steps (["o"] ++ []) = ([[0]; [11]; [6]; [4]], true).
Proof. exact combwide_prefix_example. Qed.

(* ---- the bound 2^31 is tight: C02_block_sound with the guard widened to "non-negative, at most 32 bits" (g_32 = [0, 2^32)) is
   FALSE.  A Verilog `integer` is 32 bit signed: the state variable s of Wide32 (real transpiler output, accepted by the
   validator) reaches 2 500 000 000, Python prepares s // 3 = 833333333, the module computes the signed quotient 3696644864. *)
Theorem C02_domain_31_tight_refuted : ~ block_sound_for g_32.
Proof. exact domain_31_tight. Qed.
(* ... whereas block_sound_for g_dom is C02_block_sound; and the witness written out *)
Example C02_domain_31_sound : block_sound_for g_dom.
Proof. exact block_sound_for_dom. Qed.
Example C02_domain_31_witness : exists f,
  elaborate [mod_Wide32] 200 (m_name mod_Wide32) = inr f /\ tv_block src_Wide32 mod_Wide32 = true /\
  obs_ok src_Wide32 f ["o"] ["s"] /\ pokes_inputs src_Wide32 wide_steps /\
  py_sim g_32 src_Wide32 wide_steps ["o"] ["s"] = (wide_py_trace, true) /\
  py_sim g_all src_Wide32 wide_steps ["o"] ["s"] = (wide_py_trace, true) /\
  vsim f (flat_clk f) wide_steps (["o"] ++ ["s"]) = (wide_v_trace, true) /\
  wide_v_trace <> wide_py_trace.
Proof. exact wide_witness. Qed.

Print Assumptions C02_expr_sound.
Print Assumptions C02_expr_exact.
Print Assumptions C02_cond_sound.
Print Assumptions C02_stmt_sound.
Print Assumptions C02_block_sound.
Print Assumptions C02_comb_block_sound.
Print Assumptions C02_refuted_narrow.
Print Assumptions C02_refuted_narrow_shift.
Print Assumptions C02_repaired_cmp_rhs.
Print Assumptions C02_repaired_portname.
Print Assumptions C02_unsupported_never_validated.
Print Assumptions C02_block_prefix_sound.
Print Assumptions C02_comb_block_prefix_sound.
Print Assumptions C02_domain_31_tight_refuted.
