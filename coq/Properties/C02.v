(* C02 — Python-to-Verilog transpilation preserves the behaviour of behavioural blocks.
   Statements only; proofs are in Proofs/C02/. *)
From V Require Import Base.PyInt Model.VSyntax Model.VSem Model.PySyntax Model.PySem Model.Tv Spec.C02 Proofs.C02.Refuted.
Local Open Scope string_scope.

(* ---- silent mistranslations present at the pinned commit (known findings; reproduced on the real transpiler by every run) *)
Theorem C02_refuted_narrow : refutes src_NarrowCond tgt_NarrowCond "NarrowCond" [([("a", 1); ("b", 1)], 1%nat)].
Proof. exact narrow_cond_refuted. Qed.
Theorem C02_refuted_narrow_shift : refutes src_NarrowShift tgt_NarrowShift "NarrowShift" [([("a", 139); ("b", 234)], 1%nat)].
Proof. exact narrow_shift_refuted. Qed.
Theorem C02_refuted_boolop_value : refutes src_OrValue tgt_OrValue "OrValue" [([("a", 8); ("b", 14)], 1%nat)].
Proof. exact boolop_value_refuted. Qed.
Theorem C02_refuted_cmp_rhs : refutes src_CmpRhs tgt_CmpRhs "CmpRhs" [([("a", 13); ("b", 0)], 1%nat)].
Proof. exact cmp_rhs_refuted. Qed.
Theorem C02_refuted_portname :
  (exists e, elaborate tgt_PortName 200 "PortName" = inl e) /\
  match tgt_PortName with m :: _ => tv_block src_PortName m = false | [] => False end.
Proof. exact portname_refuted. Qed.

Print Assumptions C02_refuted_narrow.
Print Assumptions C02_refuted_narrow_shift.
Print Assumptions C02_refuted_boolop_value.
Print Assumptions C02_refuted_cmp_rhs.
Print Assumptions C02_refuted_portname.
