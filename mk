#!/bin/bash
# ./mk Proofs/C07/Add.vo ...   : build Coq targets under the shared build lock (regenerates Gen/ and the Makefile first)
cd "$(dirname "$0")"
export PYTHONPATH=/repo:/verif/py PYTHONHASHSEED=0
/venv/bin/python -W ignore - "$@" <<'PY' 2> >(grep -v 'conda.cli.condarc' >&2)
import sys; sys.path.insert(0, '/verif/py')
import common
common.regen()
b = common.build(sys.argv[1:], timeout=3000)
print(b['out'][-4000:] if not b['ok'] else 'ok')
sys.exit(0 if b['ok'] else 1)
PY
